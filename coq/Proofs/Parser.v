(* Proofs about the parser model (Model/Parser.v). *)
From PG Require Import Lib.Strs Model.AllOf Model.Parser Proofs.AllOf Gen.T_C02.
From Coq Require Import Lia Arith PeanoNat Permutation.

(* ------------------------------------------------------------------ the declared semantics is fuel-monotone,
   hence a (partial) function of the document alone *)
Lemma decl_members_mono : forall (r1 r2 : node -> option dmember),
  (forall x m, r1 x = Some m -> r2 x = Some m) ->
  forall l acc m, decl_members r1 l acc = Some m -> decl_members r2 l acc = Some m.
Proof.
  intros r1 r2 H. induction l as [|x l IH]; intros acc m Hm; simpl in *; [exact Hm|].
  destruct (r1 x) as [mx|] eqn:E; [|discriminate].
  rewrite (H _ _ E). apply IH, Hm.
Qed.

Lemma decl_node_mono1 : forall f S pn nd m, decl_node f S pn nd = Some m -> decl_node (Datatypes.S f) S pn nd = Some m.
Proof.
  induction f as [|f IH]; intros S pn nd m H; [discriminate|].
  destruct nd; try exact H.
  - (* Ref *) simpl in H |- *. destruct (alookup n S) as [nd'|]; [apply IH, H | exact H].
  - (* AllOf *) change (decl_members (decl_node (Datatypes.S f) S None) l [] = Some m).
    change (decl_members (decl_node f S None) l [] = Some m) in H.
    eapply decl_members_mono; [|exact H]. intros x mx Hx. apply IH, Hx.
Qed.

Lemma decl_node_mono : forall f g S pn nd m, (f <= g)%nat -> decl_node f S pn nd = Some m -> decl_node g S pn nd = Some m.
Proof.
  intros f g S pn nd m Hle H. induction Hle; [exact H|]. apply decl_node_mono1, IHHle.
Qed.

Lemma decl_node_functional : forall f g S pn nd m1 m2,
  decl_node f S pn nd = Some m1 -> decl_node g S pn nd = Some m2 -> m1 = m2.
Proof.
  intros f g S pn nd m1 m2 H1 H2.
  apply (decl_node_mono f (Nat.max f g)) in H1; [|lia].
  apply (decl_node_mono g (Nat.max f g)) in H2; [|lia].
  congruence.
Qed.

Lemma declared_f_functional : forall f g S n d1 d2,
  declared_f f S n = Some d1 -> declared_f g S n = Some d2 -> d1 = d2.
Proof.
  unfold declared_f. intros f g S n d1 d2 H1 H2. destruct (alookup n S) as [nd|]; [|discriminate].
  destruct (decl_node f S (Some n) nd) as [m1|] eqn:E1; [|discriminate].
  destruct (decl_node g S (Some n) nd) as [m2|] eqn:E2; [|discriminate].
  simpl in *. rewrite (decl_node_functional _ _ _ _ _ _ _ E1 E2) in H1. congruence.
Qed.

(* ------------------------------------------------------------------ equality deciders are sound *)
Lemma prim_eqb_eq : forall a b, prim_eqb a b = true -> a = b.
Proof. destruct a, b; simpl; intro; congruence. Qed.

Lemma list_eqb_refl : forall {A} (eqb : A -> A -> bool), (forall x, eqb x x = true) -> forall l, list_eqb eqb l l = true.
Proof. intros A eqb H. induction l; simpl; [reflexivity|]. rewrite H, IHl. reflexivity. Qed.

Lemma tyref_eqb_refl : forall t, tyref_eqb t t = true.
Proof.
  fix IH 1. destruct t; simpl; try reflexivity.
  - apply str_eqb_refl.
  - apply IH.
  - destruct k; reflexivity.
  - apply list_eqb_refl, str_eqb_refl.
  - apply IH.
  - induction l as [|x l IHl]; [reflexivity|]. rewrite IH. exact IHl.
Qed.

Lemma field_eqb_refl : forall x, field_eqb x x = true.
Proof.
  intros [[k b] t]. unfold field_eqb; simpl. rewrite str_eqb_refl, tyref_eqb_refl, Bool.eqb_reflx. reflexivity.
Qed.

(* the executable check is complete for the property (used to refute it by evaluation) *)
Lemma faithful_b_complete : forall S s n,
  faithful S s n -> declared S n <> None -> faithful_b S s n = true.
Proof.
  intros S s n [e [He [Hf [f Hd]]]] Hsome. unfold faithful_b. rewrite He.
  destruct (declared S n) as [d|] eqn:Ed; [|congruence].
  unfold declared in Ed. rewrite (declared_f_functional _ _ _ _ _ _ Ed Hd).
  rewrite Hf. simpl. apply list_eqb_refl, field_eqb_refl.
Qed.

Lemma refute : forall S s n, declared S n <> None -> faithful_b S s n = false -> ~ faithful S s n.
Proof. intros S s n Hd Hb Hf. rewrite (faithful_b_complete _ _ _ Hf Hd) in Hb. discriminate. Qed.

(* ------------------------------------------------------------------ witnesses of the findings *)
Definition sUser : str := [85;115;101;114].
Definition sUserGroup : str := [85;115;101;114;71;114;111;117;112].
Definition sgroup : str := [103;114;111;117;112].
Definition smembers : str := [109;101;109;98;101;114;115].
Definition sxx : str := [120;120].
Definition syy : str := [121;121].
Definition sParent : str := [80;97;114;101;110;116].
Definition sChild : str := [67;104;105;108;100].
Definition skid : str := [107;105;100].
Definition saa : str := [97;97].
Definition sbb : str := [98;98].
Definition sTree : str := [84;114;101;101].
Definition skids : str := [107;105;100;115].
Definition sS (i : N) : str := [83; 48 + i].
Definition snxt : str := [110;120;116].
Definition sv : str := [118;118].

(* F02a: User{group:$ref UserGroup}, UserGroup{members:[$ref User]} declared in this order *)
Definition spec_F02a : spec :=
  [(sUser, Obj [(sgroup, Ref sUserGroup)] []); (sUserGroup, Obj [(smembers, Arr (Ref sUser))] [])].
(* F02b: User{group: inline object}, declared UserGroup *)
Definition spec_F02b : spec :=
  [(sUser, Obj [(sgroup, Obj [(sxx, Prim PString)] [])] []); (sUserGroup, Obj [(syy, Prim PInteger)] [])].
(* F02c: Parent{kid:$ref Child, aa}, Child{allOf:[$ref Parent, {bb}]}, parent first *)
Definition spec_F02c : spec :=
  [(sParent, Obj [(skid, Ref sChild); (saa, Prim PString)] [saa]);
   (sChild, AllOf [Ref sParent; Obj [(sbb, Prim PInteger)] []])].
(* F02d: $ref chain S0 -> S1 -> ... -> S5 with depth limit 3 *)
Definition chain_link (i : N) : str * node := (sS i, Obj [(snxt, Ref (sS (i + 1))); (sv, Prim PString)] [sv]).
Definition spec_F02d : spec :=
  [chain_link 0; chain_link 1; chain_link 2; chain_link 3; chain_link 4; (sS 5, Obj [(sv, Prim PString)] [sv])].
(* F02f: Tree = array of {kids: $ref Tree} *)
Definition spec_F02f : spec := [(sTree, Arr (Obj [(skids, Ref sTree)] []))].

Lemma refuted_F02a :
  guard_F02a (parse_doc default_max_depth spec_F02a) = false
  /\ ~ faithful spec_F02a (parse_doc default_max_depth spec_F02a) sUser
  /\ faithful_b (rev spec_F02a) (parse_doc default_max_depth (rev spec_F02a)) sUser = true.
Proof.
  split; [vm_compute; reflexivity|]. split; [|vm_compute; reflexivity].
  apply refute; [vm_compute; discriminate | vm_compute; reflexivity].
Qed.

Lemma refuted_F02b :
  guard_F02b spec_F02b = false
  /\ ~ faithful spec_F02b (parse_doc default_max_depth spec_F02b) sUserGroup.
Proof.
  split; [vm_compute; reflexivity|].
  apply refute; [vm_compute; discriminate | vm_compute; reflexivity].
Qed.

Lemma refuted_F02c :
  guard_F02c (parse_doc default_max_depth spec_F02c) = false
  /\ ~ faithful spec_F02c (parse_doc default_max_depth spec_F02c) sChild
  /\ faithful_b (rev spec_F02c) (parse_doc default_max_depth (rev spec_F02c)) sChild = true.
Proof.
  split; [vm_compute; reflexivity|]. split; [|vm_compute; reflexivity].
  apply refute; [vm_compute; discriminate | vm_compute; reflexivity].
Qed.

(* F02d after the fix of build_schemas: the declared schema at the depth limit keeps its fields (regression) ... *)
Lemma regression_F02d :
  forallb (fun p => faithful_b spec_F02d (parse_doc 3 spec_F02d) (fst p)) spec_F02d = true.
Proof. vm_compute. reflexivity. Qed.

(* ... but an inline object nested deeper than the limit stays a depth placeholder without its declared field *)
Definition sNode : str := [78;111;100;101].
Definition salpha : str := [97;108;112;104;97].
Definition sbeta : str := [98;101;116;97].
Definition sNodeAlphaBeta : str := [78;111;100;101;65;108;112;104;97;66;101;116;97].
Definition spec_F02d_inline : spec :=
  [(sNode, Obj [(salpha, Obj [(sbeta, Obj [(sv, Prim PString)] [sv])] [])] [])].
Lemma refuted_F02d :
  guard_F02d (parse_doc 2 spec_F02d_inline) = false
  /\ exists e, alookup sNodeAlphaBeta (parsed (parse_doc 2 spec_F02d_inline)) = Some e
               /\ flags_of e = 4 /\ fields_of e = [].
Proof. split; [vm_compute; reflexivity|]. eexists. vm_compute. repeat split. Qed.

(* F02f fixed: the array schema whose inline item refers back to it is a real model, not a placeholder *)
Lemma regression_F02f :
  faithful_b spec_F02f (parse_doc default_max_depth spec_F02f) sTree = true
  /\ has_ev EvMarked (parse_doc default_max_depth spec_F02f) = false.
Proof. vm_compute. split; reflexivity. Qed.

(* ================================================================== C02_partial: fidelity on clean runs ==============
   Structure: (1) [le]: events / out-of-fuel / identities / detected cycles only grow along a run (unconditional);
   (2) [Inv]: every registry entry was parsed from the declared node of its key, is not a placeholder and carries
   exactly the declared fields; (3) one level of the parser preserves Inv whenever it leaves no event
   ([step_ok], for an arbitrary recursive callee satisfying the same contract), hence every fuel does;
   (4) build_schemas, and the theorem. *)
(* ------------------------------------------------------------------ monotone bookkeeping of a run *)
Definition le (s s' : st) : Prop :=
  (events s' = [] -> events s = []) /\ (oof s' = false -> oof s = false) /\ (nid s <= nid s')%N
  /\ (events s' = [] -> cycles s' = cycles s).

Lemma le_refl : forall s, le s s.
Proof. intros; unfold le; repeat split; auto; lia. Qed.

Lemma le_trans : forall a b c, le a b -> le b c -> le a c.
Proof.
  unfold le. intros a b c (A1 & A2 & A3 & A4) (B1 & B2 & B3 & B4). repeat split; auto; try lia.
  intro H. rewrite (B4 H). apply A4, B1, H.
Qed.

Ltac prim := unfold le; simpl; repeat split; intros; auto; try discriminate; try lia.

Lemma le_w_stack : forall v s, le s (w_stack v s). Proof. prim. Qed.
Lemma le_w_states : forall v s, le s (w_states v s). Proof. prim. Qed.
Lemma le_set_state : forall n x s, le s (set_state n x s). Proof. prim. Qed.
Lemma le_w_depth : forall v s, le s (w_depth v s). Proof. prim. Qed.
Lemma le_w_parsed : forall v s, le s (w_parsed v s). Proof. prim. Qed.
Lemma le_reg : forall k v s, le s (reg k v s). Proof. prim. Qed.
Lemma le_bump : forall s, le s (bump s). Proof. prim. Qed.
Lemma le_add_ev : forall e s, le s (add_ev e s). Proof. prim. Qed.
Lemma le_w_oof : forall s, le s (w_oof s). Proof. prim. Qed.
Lemma le_ev_any : forall e s s', le s (add_ev e s').
Proof. prim. Abort.

#[export] Hint Resolve le_refl le_w_stack le_w_states le_set_state le_w_depth le_w_parsed le_reg le_bump le_add_ev le_w_oof : le.

Ltac chain := repeat (first [ apply le_refl | eapply le_trans; [| solve [eauto with le] ] ]).

Section Mono.
  Variable md : N.
  Variable S : spec.

  Lemma le_cycle_check : forall n s, le s (snd (cycle_check md n s)).
  Proof.
    intros n s. unfold cycle_check.
    destruct (state_of s n); simpl; auto with le;
    (destruct (md <? depth s); simpl; [prim|]);
    (destruct (mem_str n (stack s)); simpl; [|auto with le]);
    destruct (Nat.eqb _ 2); destruct (should_store _ _ _); simpl; prim.
  Qed.

  Lemma le_enter : forall name s, le s (snd (enter md name s)).
  Proof.
    intros [n|] s; unfold enter; simpl; [|auto with le].
    pose proof (le_cycle_check n (w_depth (depth s + 1) s)) as H.
    destruct (cycle_check md n (w_depth (depth s + 1) s)) as [[a ph] s2]. simpl in H.
    assert (L : le s s2) by (eapply le_trans; [apply le_w_depth | exact H]).
    destruct a; simpl; auto. destruct (nonempty n); auto; try (eapply le_trans; [exact L | apply le_w_stack]).
  Qed.

  Lemma le_exit : forall name s, le s (exit_schema name s).
  Proof.
    intros name s. unfold exit_schema.
    set (s1 := if 0 <? depth s then w_depth (depth s - 1) s else s).
    assert (L1 : le s s1) by (unfold s1; destruct (0 <? depth s); auto with le).
    destruct name as [n|]; [|exact L1]. destruct (nonempty n); [|exact L1].
    set (s2 := if mem_str n (stack s1) then w_stack (remove_first n (stack s1)) s1 else s1).
    assert (L2 : le s1 s2) by (unfold s2; destruct (mem_str n (stack s1)); auto with le).
    destruct (state_of s2 n); try (eapply le_trans; eassumption).
    all: try (eapply le_trans; [eapply le_trans; eassumption | apply le_set_state]).
  Qed.

  Definition mono (rec : option str -> node -> st -> ir * st) : Prop :=
    forall name nd s, le s (snd (rec name nd s)).

  Section WithRec.
    Variable rec : option str -> node -> st -> ir * st.
    Hypothesis Hrec : mono rec.

    Lemma le_resolve_ref : forall m s, le s (snd (resolve_ref S rec m s)).
    Proof.
      intros m s. unfold resolve_ref.
      destruct (alookup m (parsed s)) as [e|].
      - destruct (i_depthm e); [|apply le_refl].
        destruct (alookup m S); [apply Hrec | simpl; prim].
      - destruct (alookup m S); [apply Hrec | simpl; prim].
    Qed.

    Lemma le_parse_list : forall l s, le s (snd (parse_list rec l s)).
    Proof.
      induction l as [|x l IH]; intros s; simpl; [apply le_refl|].
      pose proof (Hrec None x s) as H1. destruct (rec None x s) as [i s1]. simpl in H1.
      pose proof (IH s1) as H2. destruct (parse_list rec l s1) as [is_ s2]. simpl in *.
      eapply le_trans; eassumption.
    Qed.

    Lemma le_parse_items : forall name x s, le s (snd (parse_items rec name x s)).
    Proof.
      intros name x s. unfold parse_items.
      pose proof (Hrec (item_name name x s) x s) as H1.
      destruct (rec (item_name name x s) x s) as [a s1]. simpl in H1.
      destruct (type_object x && _); simpl; [|exact H1].
      eapply le_trans; [exact H1 | apply le_bump].
    Qed.

    Lemma le_parse_props : forall ps parent acc s, le s (snd (parse_props S rec ps parent acc s)).
    Proof.
      induction ps as [|[key pn] ps IH]; intros parent acc s; simpl; [apply le_refl|].
      destruct (alookup key acc); [apply IH|].
      destruct pn.
      - (* Ref *)
        pose proof (le_resolve_ref n s) as H1. destruct (resolve_ref S rec n s) as [v s1]. simpl in H1.
        eapply le_trans; [exact H1 | apply IH].
      - (* Obj *)
        destruct (parent_truthy parent) as [p|].
        + pose proof (Hrec (Some (p ++ cls key)) (Obj ps0 req) s) as H1.
          destruct (rec (Some (p ++ cls key)) (Obj ps0 req) s) as [pr s1]. simpl in H1.
          eapply le_trans; [|apply IH].
          eapply le_trans; [exact H1|].
          destruct (flagged pr); [apply le_bump|].
          eapply le_trans; [apply le_bump | apply le_reg].
        + match goal with |- context [rec ?a ?b ?c] => pose proof (Hrec a b c) as H1; destruct (rec a b c) as [pr s1] end.
          simpl in H1.
          repeat match goal with |- context [if ?c then _ else _] => destruct c end;
            (eapply le_trans; [|apply IH]); (eapply le_trans; [exact H1|]); auto with le.
      - match goal with |- context [rec ?a ?b ?c] => pose proof (Hrec a b c) as H1; destruct (rec a b c) as [pr s1] end.
        simpl in H1.
        repeat match goal with |- context [if ?c then _ else _] => destruct c end;
          (eapply le_trans; [|apply IH]); (eapply le_trans; [exact H1|]); auto with le.
      - match goal with |- context [rec ?a ?b ?c] => pose proof (Hrec a b c) as H1; destruct (rec a b c) as [pr s1] end.
        simpl in H1.
        repeat match goal with |- context [if ?c then _ else _] => destruct c end;
          (eapply le_trans; [|apply IH]); (eapply le_trans; [exact H1|]); auto with le.
      - match goal with |- context [rec ?a ?b ?c] => pose proof (Hrec a b c) as H1; destruct (rec a b c) as [pr s1] end.
        simpl in H1.
        repeat match goal with |- context [if ?c then _ else _] => destruct c end;
          (eapply le_trans; [|apply IH]); (eapply le_trans; [exact H1|]); auto with le.
      - match goal with |- context [rec ?a ?b ?c] => pose proof (Hrec a b c) as H1; destruct (rec a b c) as [pr s1] end.
        simpl in H1.
        repeat match goal with |- context [if ?c then _ else _] => destruct c end;
          (eapply le_trans; [|apply IH]); (eapply le_trans; [exact H1|]); auto with le.
      - match goal with |- context [rec ?a ?b ?c] => pose proof (Hrec a b c) as H1; destruct (rec a b c) as [pr s1] end.
        simpl in H1.
        repeat match goal with |- context [if ?c then _ else _] => destruct c end;
          (eapply le_trans; [|apply IH]); (eapply le_trans; [exact H1|]); auto with le.
      - match goal with |- context [rec ?a ?b ?c] => pose proof (Hrec a b c) as H1; destruct (rec a b c) as [pr s1] end.
        simpl in H1.
        repeat match goal with |- context [if ?c then _ else _] => destruct c end;
          (eapply le_trans; [|apply IH]); (eapply le_trans; [exact H1|]); auto with le.
      - match goal with |- context [rec ?a ?b ?c] => pose proof (Hrec a b c) as H1; destruct (rec a b c) as [pr s1] end.
        simpl in H1.
        repeat match goal with |- context [if ?c then _ else _] => destruct c end;
          (eapply le_trans; [|apply IH]); (eapply le_trans; [exact H1|]); auto with le.
    Qed.

    Lemma le_finish : forall name x s, le s (snd (finish S name x s)).
    Proof.
      intros [n|] x s; unfold finish; [|apply le_refl].
      destruct (negb (nonempty n)); [apply le_refl|].
      destruct (match alookup n (parsed s) with Some e => if i_circ e then Some e else None | None => None end);
        [simpl; prim|].
      match goal with |- context [find ?f (cycles ?t)] => set (s1 := t); destruct (find f (cycles s1)) end.
      all: assert (L : le s s1) by
        (unfold s1; repeat match goal with |- context [if ?c then _ else _] => destruct c end; simpl; prim).
      2: exact L.
      destruct (_ || _); simpl; [|exact L].
      eapply le_trans; [exact L|]. prim.
    Qed.

    Lemma le_parse_body : forall name nd s, le s (snd (parse_body S rec name nd s)).
    Proof.
      intros name nd s. destruct nd; simpl.
      - pose proof (le_resolve_ref n s) as H. destruct (resolve_ref S rec n s) as [r s1]. simpl in H.
        destruct name as [nm|]; [|exact H]. destruct (nonempty nm); [|exact H].
        destruct (match i_name r with Some rn => _ | None => false end); [exact H|].
        destruct (registered nm s1 && negb (cut_off nm s1)); [exact H|]. simpl. eapply le_trans; [exact H | apply le_reg].
      - pose proof (le_parse_props ps (match name with Some n => if nonempty n then Some (cls n) else None | None => None end) [] s) as H.
        destruct (parse_props S rec ps _ [] s) as [props s1]. simpl in H.
        eapply le_trans; [exact H|]. eapply le_trans; [apply le_bump | apply le_finish].
      - pose proof (le_parse_items name nd s) as H1. destruct (parse_items rec name nd s) as [it s1]. simpl in H1.
        pose proof (le_parse_items name nd (bump s1)) as H2. destruct (parse_items rec name nd (bump s1)) as [it2 s2].
        simpl in H2. eapply le_trans; [exact H1|]. eapply le_trans; [apply le_bump|].
        eapply le_trans; [exact H2 | apply le_finish].
      - pose proof (le_parse_list l s) as H. destruct (parse_list rec l s) as [ms s1]. simpl in H.
        eapply le_trans; [exact H|]. eapply le_trans; [apply le_bump | apply le_finish].
      - pose proof (le_parse_list l s) as H. destruct (parse_list rec l s) as [ms s1]. simpl in H.
        eapply le_trans; [exact H|]. eapply le_trans; [apply le_bump | apply le_finish].
      - pose proof (le_parse_list l s) as H. destruct (parse_list rec l s) as [ms s1]. simpl in H.
        eapply le_trans; [exact H|]. eapply le_trans; [apply le_bump | apply le_finish].
      - eapply le_trans; [apply le_bump | apply le_finish].
      - eapply le_trans; [apply le_bump | apply le_finish].
      - pose proof (Hrec None nd s) as H. destruct (rec None nd s) as [ap s1]. simpl in H.
        eapply le_trans; [exact H|]. eapply le_trans; [apply le_bump | apply le_finish].
    Qed.

    Lemma le_step : forall name nd s, le s (snd (step md S rec name nd s)).
    Proof.
      intros name nd s. unfold step.
      pose proof (le_enter name s) as H. destruct (enter md name s) as [[a ph] s1]. simpl in H.
      assert (B : forall s', le s' (snd (let '(r, s2) := parse_body S rec name nd s' in (r, exit_schema name s2)))).
      { intros s'. pose proof (le_parse_body name nd s') as H1. destruct (parse_body S rec name nd s') as [r s2].
        simpl in *. eapply le_trans; [exact H1 | apply le_exit]. }
      destruct a.
      - eapply le_trans; [exact H | apply B].
      - destruct name as [n|].
        + destruct (nonempty n).
          * destruct (alookup n (parsed (exit_schema (Some n) s1))); cbn [snd].
            -- eapply le_trans; [exact H|]. eapply le_trans; [apply le_exit | apply le_add_ev].
            -- eapply le_trans; [|apply B]. eapply le_trans; [exact H|].
               eapply le_trans; [apply le_exit|]. eapply le_trans; [apply le_set_state | apply le_add_ev].
          * eapply le_trans; [|apply B]. eapply le_trans; [exact H | apply le_exit].
        + eapply le_trans; [|apply B]. eapply le_trans; [exact H | apply le_exit].
      - assert (L : le s (add_ev EvPlaceholder (exit_schema name s1))).
        { eapply le_trans; [exact H|]. eapply le_trans; [apply le_exit | apply le_add_ev]. }
        destruct name as [n|]; [destruct (alookup n _)|]; cbn [snd]; try exact L;
          (eapply le_trans; [exact L | apply le_bump]).
      - assert (L : le s (exit_schema name s1)) by (eapply le_trans; [exact H | apply le_exit]).
        destruct ph; cbn [snd]; [exact L|]. eapply le_trans; [exact L | apply le_bump].
    Qed.
  End WithRec.

  Lemma mono_parse_schema : forall fuel, mono (parse_schema md S fuel).
  Proof.
    induction fuel as [|f IH]; intros name nd s; simpl.
    - eapply le_trans; [apply le_bump | apply le_w_oof].
    - apply le_step, IH.
  Qed.

  Lemma le_build_pass : forall fuel l s, le s (build_pass md S fuel l s).
  Proof.
    induction l as [|[n nd] l IH]; intros s; simpl; [apply le_refl|].
    destruct (unparsed n s && unparsed (cls n) s); [|apply IH].
    eapply le_trans; [|apply IH]. eapply le_trans; [apply le_set_state | apply mono_parse_schema].
  Qed.

  Lemma le_build_iter : forall k fuel pend prev s, le s (build_iter md S k fuel pend prev s).
  Proof.
    induction k as [|k IH]; intros fuel pend prev s; cbn [build_iter]; [apply le_refl|].
    destruct (is_nil pend || same_names prev pend); [apply le_refl|].
    apply (le_trans _ (build_pass md S fuel pend s)); [apply le_build_pass | apply IH].
  Qed.

  Lemma le_build : forall fuel s, le s (build md S fuel s).
  Proof. intros. apply le_build_iter. Qed.
End Mono.

Lemma alookup_In : forall {V} (l : list (str * V)) k v, alookup k l = Some v -> In (k, v) l.
Proof.
  induction l as [|[k' v'] l IH]; intros k v H; simpl in *; [discriminate|].
  destruct (str_eqb k k') eqn:E; [|right; apply IH, H].
  apply str_eqb_eq in E; subst. inversion H; subst. left; reflexivity.
Qed.

Lemma in_aset : forall {V} (l : list (str * V)) k v k' v',
  In (k', v') (aset l k v) -> In (k', v') l \/ (k', v') = (k, v).
Proof.
  induction l as [|[k0 v0] l IH]; intros k v k' v' H; simpl in *.
  - destruct H as [H|[]]; right; congruence.
  - destruct (str_eqb k k0) eqn:E.
    + apply str_eqb_eq in E; subst. destruct H as [H|H]; [right; congruence | left; right; exact H].
    + destruct H as [H|H]; [left; left; exact H|]. apply IH in H. destruct H; [left; right|right]; assumption.
Qed.

Lemma mem_str_false_neq : forall k l x, mem_str k l = false -> In x l -> k <> x.
Proof.
  intros k l x H Hin E. subst. assert (mem_str x l = true) by (apply mem_str_In; exact Hin). congruence.
Qed.

Lemma core_items_members : forall l, forallb core_item l = true -> forallb core_member l = true.
Proof.
  induction l as [|x l IH]; intros H; simpl in *; [reflexivity|].
  apply andb_true_iff in H. destruct H as [H1 H2]. rewrite (IH H2), andb_true_r.
  unfold core_member. destruct x; try discriminate; reflexivity.
Qed.

Lemma core_items_nokeys : forall l, forallb core_item l = true ->
  forall x k, In x l -> In k (prop_keys x) -> False.
Proof.
  intros l H x k Hx Hk. rewrite forallb_forall in H. specialize (H x Hx).
  destruct x; try discriminate; exact Hk.
Qed.

Lemma nodup_alookup : forall {V} (l : list (str * V)) n v,
  nodup_strs (map fst l) = true -> In (n, v) l -> alookup n l = Some v.
Proof.
  induction l as [|[k w] l IH]; intros n v Hn Hin; [contradiction|].
  simpl in Hn. apply andb_true_iff in Hn. destruct Hn as [Hk Hn]. apply negb_true_iff in Hk.
  simpl. destruct Hin as [Heq|Hin].
  - inversion Heq; subst. rewrite str_eqb_refl. reflexivity.
  - destruct (str_eqb n k) eqn:E.
    + apply str_eqb_eq in E; subst. exfalso.
      assert (mem_str k (map fst l) = true) by (apply mem_str_In; apply (in_map fst) in Hin; exact Hin).
      congruence.
    + apply IH; assumption.
Qed.

Lemma refs_members : forall l m, In (Ref m) l -> In m (refs (AllOf l)).
Proof.
  induction l as [|a l IH]; intros m H; [contradiction|]. simpl. apply in_or_app.
  destruct H as [->|H]; [left; left; reflexivity | right; apply IH, H].
Qed.

Lemma nt_declared : forall (S : spec) n nd, alookup n S = Some nd -> alookup n (nt S) = Some nd.
Proof. intros S n nd H. unfold nt. rewrite alookup_app, H. reflexivity. Qed.

Lemma cls_app : forall p x, nonempty p = true -> cls p = p -> cls (p ++ x) = p ++ x /\ nonempty (p ++ x) = true.
Proof.
  intros [|c r] x Hn Hc; [discriminate|]. simpl in *. split; [|reflexivity].
  destruct (is_lower c) eqn:E; [|reflexivity].
  exfalso. inversion Hc as [Hu]. unfold upper_ascii in Hu. rewrite E in Hu.
  unfold is_lower in E. apply andb_true_iff in E. destruct E as [E1 _]. apply N.leb_le in E1. lia.
Qed.

Lemma flat_map_nil : forall {A B} (f : A -> list B) l, (forall x, In x l -> f x = []) -> flat_map f l = [].
Proof.
  induction l as [|x l IH]; intros H; simpl; [reflexivity|].
  rewrite (H x (or_introl eq_refl)), IH; [reflexivity|]. intros y Hy. apply H. right. exact Hy.
Qed.

Lemma core_prop_not_obj : forall y, core_prop y = true -> is_obj y = false.
Proof. destruct y; try discriminate; reflexivity. Qed.

Lemma core_syn : forall p nd, core_top nd = true -> syn_of p nd = [].
Proof.
  intros p nd H. destruct nd; try reflexivity. simpl in *.
  apply flat_map_nil. intros kv Hin. rewrite forallb_forall in H.
  rewrite (core_prop_not_obj _ (H kv Hin)). reflexivity.
Qed.

Lemma core_deep : forall nd, core_top nd = true -> deep_keys nd = prop_keys nd.
Proof.
  intros nd H. unfold deep_keys. destruct nd; try apply app_nil_r. simpl in H.
  rewrite flat_map_nil; [apply app_nil_r|]. intros kv Hin. rewrite forallb_forall in H.
  rewrite (core_prop_not_obj _ (H kv Hin)). reflexivity.
Qed.

Lemma core_nt : forall S, core_spec S = true -> nt S = S.
Proof.
  intros S H. unfold nt. rewrite flat_map_nil; [apply app_nil_r|].
  intros [n nd] Hin. unfold core_spec in H. apply andb_true_iff in H. destruct H as [H _].
  rewrite forallb_forall in H. specialize (H _ Hin). simpl in H.
  repeat (apply andb_true_iff in H; destruct H as [H ?]). apply core_syn. exact H.
Qed.

Lemma core_inl_top : forall nd, core_top nd = true -> inl_top nd = true.
Proof.
  intros nd H. destruct nd; try exact H. simpl in *. rewrite forallb_forall in *.
  intros kv Hin. unfold inl_prop. rewrite (H kv Hin). reflexivity.
Qed.

Lemma core_inl : forall S, core_spec S = true ->
  (forall n nd, In (n, nd) S -> forall m, In m (refs nd) -> In m (map fst S)) -> inl_spec S = true.
Proof.
  intros S H HRf. unfold inl_spec. rewrite (core_nt S H).
  pose proof H as H0. unfold core_spec in H0. apply andb_true_iff in H0. destruct H0 as [HA HN].
  rewrite HN, andb_true_r. rewrite forallb_forall in *. intros [n nd] Hin. specialize (HA _ Hin). simpl in *.
  repeat (apply andb_true_iff in HA; destruct HA as [HA ?]).
  rewrite (core_inl_top _ HA), (core_deep _ HA). simpl.
  repeat (apply andb_true_iff; split); auto.
  apply forallb_forall. intros m Hm. apply mem_str_In. eapply HRf; eassumption.
Qed.

Section InvProofs.
  Variable md : N.
  Variable S : spec.
  Hypothesis HS : inl_spec S = true.

  (* ---------------- consequences of the static guard *)
  Lemma spec_facts_in : forall n nd, In (n, nd) S ->
    inl_top nd = true /\ cls n = n /\ nonempty n = true
    /\ (forall k, In k (deep_keys nd) -> ~ In k (map fst (nt S)))
    /\ (forall m, In m (refs nd) -> In m (map fst S)).
  Proof.
    intros n nd H. unfold inl_spec in HS. apply andb_true_iff in HS. destruct HS as [HA _].
    rewrite forallb_forall in HA. specialize (HA _ H). simpl in HA.
    repeat (apply andb_true_iff in HA; destruct HA as [HA ?]).
    repeat split; auto.
    - apply str_eqb_eq; assumption.
    - intros k Hk Hin. rewrite forallb_forall in H1. specialize (H1 _ Hk).
      apply negb_true_iff in H1. apply mem_str_In in Hin. congruence.
    - intros m Hm. rewrite forallb_forall in H0. apply mem_str_In. apply H0. exact Hm.
  Qed.

  Lemma spec_facts : forall n nd, alookup n S = Some nd ->
    inl_top nd = true /\ cls n = n /\ nonempty n = true
    /\ (forall k, In k (deep_keys nd) -> ~ In k (map fst (nt S)))
    /\ (forall m, In m (refs nd) -> In m (map fst S)).
  Proof. intros n nd H. apply spec_facts_in. apply alookup_In. exact H. Qed.

  Lemma nt_nodup : nodup_strs (map fst (nt S)) = true.
  Proof. unfold inl_spec in HS. apply andb_true_iff in HS. apply HS. Qed.

  Lemma names_nodup : nodup_strs (map fst S) = true.
  Proof.
    pose proof nt_nodup as N. unfold nt in N. rewrite map_app in N.
    clear - N. induction (map fst S) as [|x l IH]; [reflexivity|]. simpl in *.
    apply andb_true_iff in N. destruct N as [N1 N2]. rewrite (IH N2), andb_true_r.
    apply negb_true_iff in N1. apply negb_true_iff. rewrite mem_str_app in N1. apply orb_false_iff in N1. apply N1.
  Qed.

  (* an entry of the name table is a declared schema or a promoted inline object of core properties *)
  Lemma nt_cases : forall n nd, alookup n (nt S) = Some nd ->
    alookup n S = Some nd
    \/ (alookup n S = None /\ core_obj nd = true /\ cls n = n /\ nonempty n = true
        /\ (forall k, In k (prop_keys nd) -> ~ In k (map fst (nt S)))).
  Proof.
    intros n nd H. unfold nt in H. rewrite alookup_app in H.
    destruct (alookup n S) as [v|] eqn:E; [left; exact H|right].
    split; [reflexivity|]. apply alookup_In in H. apply in_flat_map in H.
    destruct H as [[pn pnd] [Hp Hin]]. simpl in Hin.
    destruct (spec_facts_in _ _ Hp) as (Ht & Hcls & Hne & Hk & _).
    destruct pnd; try contradiction. simpl in Hin. apply in_flat_map in Hin.
    destruct Hin as [[key x] [Hkv Hx]]. simpl in Hx.
    destruct (is_obj x) eqn:Eo; [|contradiction]. destruct Hx as [Hx|[]]. inversion Hx; subst n nd. clear Hx.
    simpl in Ht. rewrite forallb_forall in Ht. specialize (Ht _ Hkv). simpl in Ht. unfold inl_prop in Ht.
    assert (Co : core_obj x = true) by (destruct x; try discriminate; exact Ht).
    destruct (cls_app pn (cls key) Hne Hcls) as [C1 C2].
    split; [exact Co|]. split; [exact C1|]. split; [exact C2|].
    intros k Hin. apply Hk. unfold deep_keys. apply in_or_app. right.
    apply in_flat_map. exists (key, x). split; [exact Hkv|]. simpl. rewrite Eo. exact Hin.
  Qed.

  Lemma nt_inline : forall n ps rq key pn,
    alookup n S = Some (Obj ps rq) -> In (key, pn) ps -> is_obj pn = true ->
    alookup (n ++ cls key) (nt S) = Some pn.
  Proof.
    intros n ps rq key pn Hl Hin Ho. apply nodup_alookup; [apply nt_nodup|].
    unfold nt. apply in_or_app. right. apply in_flat_map. exists (n, Obj ps rq).
    split; [apply alookup_In; exact Hl|]. simpl. apply in_flat_map. exists (key, pn).
    split; [exact Hin|]. simpl. rewrite Ho. left. reflexivity.
  Qed.

  (* ---------------- the invariant *)
  Definition fvals (ps : list (str * ir)) : list (str * tyref) :=
    map (fun kv => (fst kv, tyref_of (Some (fst kv)) (snd kv))) ps.

  Definition clean_ir (e : ir) : Prop :=
    i_circ e = false /\ i_unres e = false /\ i_depthm e = false /\ i_stub e = false
    /\ (forall n, i_ty e <> Some (TyNamed n)).

  Definition member_ok (pn : option str) (nd : node) (r : ir) : Prop :=
    exists f m, decl_node f S pn nd = Some m /\ fvals (i_props r) = fst m /\ i_req r = snd m.

  Lemma core_props_ty : forall pn ps, forallb (fun kv => core_prop (snd kv)) ps = true ->
    map (fun kv : str * node => (fst kv, ty_of_prop pn (fst kv) (snd kv))) ps
    = map (fun kv => (fst kv, ty_of (snd kv))) ps.
  Proof.
    induction ps as [|[k x] ps IH]; intros H; simpl in *; [reflexivity|].
    apply andb_true_iff in H. destruct H as [H1 H2]. rewrite (IH H2). f_equal.
    destruct x; try discriminate; reflexivity.
  Qed.

  Definition good (k : str) (e : ir) : Prop :=
    exists nd, alookup k (nt S) = Some nd /\ i_name e = Some k /\ clean_ir e /\ member_ok (Some k) nd e /\ kind_ok nd e.

  Definition Inv (s : st) : Prop :=
    (forall k e, In (k, e) (parsed s) -> good k e /\ (i_id e < nid s)%N) /\ cycles s = [].

  Definition older (s : st) (id : N) : Prop := forall k e, In (k, e) (parsed s) -> (i_id e < id)%N.

  Definition anon_ok (s s' : st) (nd : node) (r : ir) : Prop :=
    match nd with
    | Ref m => good m r /\ alookup m (parsed s') = Some r /\ (registered m s = true -> parsed s' = parsed s)
    | Prim k => exists id, r = blank id None (Some (TyPrim k)) /\ older s' id /\ parsed s' = parsed s
    | EnumN => exists id, r = IR id None (Some (TyPrim PString)) [] [] None None None None false true false false false false
                          /\ older s' id /\ parsed s' = parsed s
    | Arr y => exists id it, r = IR id None (Some TyArray) [] [] (Some it) None None None false false false false false false
                             /\ tyref_of None it = ty_of y /\ older s' id
    | Obj ps rq => i_name r = None /\ member_ok None nd r
    | _ => True
    end.

  Definition core_anon (nd : node) : bool := core_prop nd || core_item nd || core_obj nd.

  Definition rec_ok (rec : option str -> node -> st -> ir * st) : Prop :=
    forall name nd s r s', rec name nd s = (r, s') -> events s' = [] -> oof s' = false -> Inv s ->
      match name with
      | None => core_anon nd = true -> (forall k, In k (prop_keys nd) -> ~ In k (map fst (nt S))) ->
                Inv s' /\ anon_ok s s' nd r
      | Some n => alookup n (nt S) = Some nd -> Inv s' /\ good n r /\ alookup n (parsed s') = Some r
      end.

  Lemma good_tyref : forall m e key, good m e -> key <> Some m -> tyref_of key e = TRef m.
  Proof.
    intros m e key (nd & _ & Hn & (_ & _ & _ & _ & Hty) & _) Hk.
    destruct e as [id nm ty ps rq it ap ao oo al en ci un dm sb]; simpl in *. subst.
    destruct ty as [[]|]; try (exfalso; eapply Hty; reflexivity);
      (destruct key as [kk|]; simpl;
       [destruct (str_eqb m kk) eqn:E; [apply str_eqb_eq in E; subst; congruence | reflexivity] | reflexivity]).
  Qed.

  Lemma good_member_ref : forall pn m e, In m (map fst S) -> good m e -> member_ok pn (Ref m) e.
  Proof.
    intros pn m e Hin (nd & Hl & _ & _ & (f & mm & Hd & H1 & H2) & _).
    destruct (nt_cases _ _ Hl) as [HlS|(HlS & _)].
    - exists (Datatypes.S f), mm. simpl. rewrite HlS. auto.
    - exfalso. apply in_map_iff in Hin. destruct Hin as [[m' nd'] [E Hin]]. simpl in E. subst m'.
      assert (ND : nodup_strs (map fst S) = true).
      { pose proof nt_nodup as N. unfold nt in N. rewrite map_app in N.
        clear - N. induction (map fst S) as [|x l IH]; [reflexivity|]. simpl in *.
        apply andb_true_iff in N. destruct N as [N1 N2]. rewrite (IH N2), andb_true_r.
        apply negb_true_iff in N1. apply negb_true_iff. rewrite mem_str_app in N1. apply orb_false_iff in N1. apply N1. }
      rewrite (nodup_alookup _ _ _ ND Hin) in HlS. discriminate.
  Qed.

  Lemma item_ty : forall s s' y r, core_item y = true -> anon_ok s s' y r -> tyref_of None r = ty_of y.
  Proof.
    intros s s' y r Hc H. destruct y; try discriminate; simpl in H.
    - destruct H as [H _]. apply good_tyref; [exact H | discriminate].
    - destruct H as (id & -> & _). reflexivity.
    - destruct H as (id & -> & _). reflexivity.
  Qed.

  Lemma Inv_older : forall s, Inv s -> older s (nid s).
  Proof. intros s [H _] k e Hin. apply H in Hin. apply Hin. Qed.

  Lemma update_id_older : forall id f l, (forall k e, In (k, e) l -> (i_id e < id)%N) -> update_id id f l = l.
  Proof.
    induction l as [|[k v] l IH]; intros H; simpl; [reflexivity|].
    assert (Hv : (i_id v < id)%N) by (eapply H; left; reflexivity).
    destruct (i_id v =? id) eqn:E; [apply N.eqb_eq in E; lia|].
    f_equal. apply IH. intros k' e' Hin. eapply H. right. exact Hin.
  Qed.

  Section WithRec.
    Variable rec : option str -> node -> st -> ir * st.
    Hypothesis Hrec : rec_ok rec.
    Hypothesis Hm : mono rec.

    (* ---------------- _resolve_ref *)
    Lemma resolve_ok : forall m s r s',
      resolve_ref S rec m s = (r, s') -> events s' = [] -> oof s' = false -> Inv s ->
      Inv s' /\ good m r /\ alookup m (parsed s') = Some r /\ (registered m s = true -> parsed s' = parsed s).
    Proof.
      intros m s r s' H He Ho HI. unfold resolve_ref in H. unfold registered.
      destruct (alookup m (parsed s)) as [e|] eqn:E.
      - pose proof (alookup_In _ _ _ E) as Hin. apply HI in Hin. destruct Hin as [Hg _].
        assert (D : i_depthm e = false) by (destruct Hg as (nd & _ & _ & (_ & _ & D & _) & _); exact D).
        rewrite D in H. inversion H; subst. auto.
      - destruct (alookup m S) as [nd|] eqn:El.
        + pose proof (Hrec (Some m) nd s r s' H He Ho HI (nt_declared _ _ _ El)) as (A & B & C).
          split; [exact A|]. split; [exact B|]. split; [exact C|]. intro; discriminate.
        + inversion H; subst. simpl in He. discriminate.
    Qed.

    (* ---------------- items *)
    Lemma items_ok : forall name y s r s', core_item y = true ->
      parse_items rec name y s = (r, s') -> events s' = [] -> oof s' = false -> Inv s ->
      Inv s' /\ anon_ok s s' y r.
    Proof.
      intros name y s r s' Hc H He Ho HI. unfold parse_items in H.
      assert (N0 : item_name name y s = None).
      { unfold item_name. destruct y; try discriminate; reflexivity. }
      rewrite N0 in H. destruct (rec None y s) as [a s1] eqn:E.
      assert (T : type_object y = false) by (destruct y; try discriminate; reflexivity).
      rewrite T in H. simpl in H. inversion H; subst.
      apply (Hrec None y s r s' E He Ho HI).
      - unfold core_anon. rewrite Hc. rewrite orb_true_r. reflexivity.
      - destruct y; try discriminate; intros k0 [].
    Qed.

    Lemma alookup_fvals_none : forall l k, alookup k l = None -> alookup k (fvals l) = None.
    Proof.
      induction l as [|[k' v'] l IH]; intros k H; simpl in *; [reflexivity|].
      destruct (str_eqb k k'); [discriminate | apply IH, H].
    Qed.
    Lemma alookup_fvals_some : forall l k v, alookup k l = Some v -> exists t, alookup k (fvals l) = Some t.
    Proof.
      induction l as [|[k' v'] l IH]; intros k v H; simpl in *; [discriminate|].
      destruct (str_eqb k k'); [eexists; reflexivity | eapply IH, H].
    Qed.

    Lemma fvals_app : forall a b, fvals (a ++ b) = fvals a ++ fvals b.
    Proof. intros. unfold fvals. apply map_app. Qed.

    Lemma merge_into_cons_new : forall {V} (acc : list (str * V)) k v rest,
      alookup k acc = None -> merge_into acc ((k, v) :: rest) = merge_into (acc ++ [(k, v)]) rest.
    Proof. intros. unfold merge_into. simpl. unfold add_first at 2. simpl. rewrite H. reflexivity. Qed.
    Lemma merge_into_cons_old : forall {V} (acc : list (str * V)) k v v0 rest,
      alookup k acc = Some v0 -> merge_into acc ((k, v) :: rest) = merge_into acc rest.
    Proof. intros. unfold merge_into. simpl. unfold add_first at 2. simpl. rewrite H. reflexivity. Qed.

    (* ---------------- _parse_properties on core properties *)
    Lemma props_ok : forall ps parent acc s out s',
      forallb (fun kv => core_prop (snd kv)) ps = true ->
      (forall k, In k (map fst ps) -> ~ In k (map fst (nt S))) ->
      parse_props S rec ps parent acc s = (out, s') -> events s' = [] -> oof s' = false -> Inv s ->
      Inv s' /\ fvals out = merge_into (fvals acc) (map (fun kv => (fst kv, ty_of (snd kv))) ps).
    Proof.
      induction ps as [|[key pn] ps IH]; intros parent acc s out s' Hc Hk H He Ho HI.
      - simpl in H. inversion H; subst. auto.
      - simpl in Hc. apply andb_true_iff in Hc. destruct Hc as [Hc1 Hc2].
        assert (Hk2 : forall k, In k (map fst ps) -> ~ In k (map fst (nt S))) by (intros k Hin; apply Hk; right; exact Hin).
        assert (Hkey : ~ In key (map fst (nt S))) by (apply Hk; left; reflexivity).
        simpl in H. simpl map.
        destruct (alookup key acc) as [v0|] eqn:Ea.
        { destruct (alookup_fvals_some _ _ _ Ea) as [t Et].
          rewrite (merge_into_cons_old _ _ _ _ _ Et). eapply IH; eauto. }
        pose proof (alookup_fvals_none _ _ Ea) as En.
        rewrite (merge_into_cons_new _ _ _ _ En).
        destruct pn; try discriminate.
        + (* Ref *)
          destruct (resolve_ref S rec n s) as [v s1] eqn:Er.
          pose proof (le_parse_props S rec Hm ps parent (acc ++ [(key, v)]) s1) as L. rewrite H in L. simpl in L.
          destruct L as (L1 & L2 & _).
          destruct (resolve_ok _ _ _ _ Er (L1 He) (L2 Ho) HI) as (I1 & G & _).
          destruct (IH _ _ _ _ _ Hc2 Hk2 H He Ho I1) as (I2 & F).
          split; [exact I2|]. rewrite F, fvals_app. simpl.
          rewrite (good_tyref _ _ (Some key) G); [reflexivity|].
          intro E. inversion E; subst. apply Hkey.
          destruct G as (nd & Hl & _). apply alookup_In in Hl. apply (in_map fst) in Hl. exact Hl.
        + (* Arr *)
          simpl in Hc1.
          assert (SA : is_simple_array (Arr pn) = true).
          { simpl. destruct pn; try discriminate; reflexivity. }
          assert (R : (match parent_truthy parent with _ => true end) = true) by reflexivity.
          change (is_simple_primitive (Arr pn)) with false in H. rewrite SA in H. simpl orb in H. cbv iota in H.
          destruct (rec None (Arr pn) s) as [pr s1] eqn:Er.
          cbn [negb andb] in H.
          match type of H with parse_props _ _ _ _ _ ?sx = _ =>
            pose proof (le_parse_props S rec Hm ps parent (acc ++ [(key, set_name (Some key) pr)]) sx) as L end.
          rewrite H in L. simpl in L. destruct L as (L1 & L2 & _).
          assert (CA : core_anon (Arr pn) = true) by (unfold core_anon; simpl; rewrite Hc1; reflexivity).
          assert (NK : forall k, In k (prop_keys (Arr pn)) -> ~ In k (map fst (nt S))) by (intros k0 []).
          pose proof (Hrec None (Arr pn) s pr s1 Er (L1 He) (L2 Ho) HI CA NK) as (I1 & (id & it & -> & Hit & Hold)).
          simpl i_id in H. rewrite (update_id_older _ _ _ Hold) in H.
          assert (I1' : Inv (w_parsed (parsed s1) s1)) by exact I1.
          destruct (IH _ _ _ _ _ Hc2 Hk2 H He Ho I1') as (I2 & F).
          split; [exact I2|]. rewrite F, fvals_app. simpl. rewrite str_eqb_refl, Hit. reflexivity.
        + (* Prim *)
          change (is_simple_primitive (Prim k)) with true in H. simpl orb in H. cbv iota in H.
          destruct (rec None (Prim k) s) as [pr s1] eqn:Er.
          cbn [negb andb] in H.
          match type of H with parse_props _ _ _ _ _ ?sx = _ =>
            pose proof (le_parse_props S rec Hm ps parent (acc ++ [(key, set_name (Some key) pr)]) sx) as L end.
          rewrite H in L. simpl in L. destruct L as (L1 & L2 & _).
          assert (CA : core_anon (Prim k) = true) by reflexivity.
          assert (NK : forall k0, In k0 (prop_keys (Prim k)) -> ~ In k0 (map fst (nt S))) by (intros k0 []).
          pose proof (Hrec None (Prim k) s pr s1 Er (L1 He) (L2 Ho) HI CA NK) as (I1 & (id & -> & Hold & _)).
          simpl i_id in H. rewrite (update_id_older _ _ _ Hold) in H.
          assert (I1' : Inv (w_parsed (parsed s1) s1)) by exact I1.
          destruct (IH _ _ _ _ _ Hc2 Hk2 H He Ho I1') as (I2 & F).
          split; [exact I2|]. rewrite F, fvals_app. simpl. rewrite str_eqb_refl. reflexivity.
    Qed.

    (* ... and with inline object properties promoted to <Parent><Prop> *)
    Lemma props_ok_inl : forall ps parent acc s out s',
      forallb (fun kv => inl_prop (snd kv)) ps = true ->
      (forall key pn, In (key, pn) ps -> is_obj pn = true ->
         exists p, parent_truthy parent = Some p /\ alookup (p ++ cls key) (nt S) = Some pn) ->
      (forall k, In k (map fst ps) -> ~ In k (map fst (nt S))) ->
      parse_props S rec ps parent acc s = (out, s') -> events s' = [] -> oof s' = false -> Inv s ->
      Inv s' /\ fvals out = merge_into (fvals acc) (map (fun kv => (fst kv, ty_of_prop parent (fst kv) (snd kv))) ps).
    Proof.
      induction ps as [|[key pn] ps IH]; intros parent acc s out s' Hc Hinl Hk H He Ho HI.
      - simpl in H. inversion H; subst. auto.
      - simpl in Hc. apply andb_true_iff in Hc. destruct Hc as [Hc1 Hc2].
        assert (Hk2 : forall k, In k (map fst ps) -> ~ In k (map fst (nt S))) by (intros k Hin; apply Hk; right; exact Hin).
        assert (Hkey : ~ In key (map fst (nt S))) by (apply Hk; left; reflexivity).
        assert (Hin2 : forall key0 pn0, In (key0, pn0) ps -> is_obj pn0 = true ->
                  exists p, parent_truthy parent = Some p /\ alookup (p ++ cls key0) (nt S) = Some pn0)
          by (intros key0 pn0 Hi Ho0; apply Hinl; [right; exact Hi | exact Ho0]).
        unfold inl_prop in Hc1.
        simpl in H. simpl map.
        destruct (alookup key acc) as [v0|] eqn:Ea.
        { destruct (alookup_fvals_some _ _ _ Ea) as [t Et].
          rewrite (merge_into_cons_old _ _ _ _ _ Et). eapply IH; eauto. }
        pose proof (alookup_fvals_none _ _ Ea) as En.
        rewrite (merge_into_cons_new _ _ _ _ En).
        destruct pn; try discriminate.
        + (* Ref *)
          destruct (resolve_ref S rec n s) as [v s1] eqn:Er.
          pose proof (le_parse_props S rec Hm ps parent (acc ++ [(key, v)]) s1) as L. rewrite H in L. simpl in L.
          destruct L as (L1 & L2 & _).
          destruct (resolve_ok _ _ _ _ Er (L1 He) (L2 Ho) HI) as (I1 & G & _).
          destruct (IH _ _ _ _ _ Hc2 Hin2 Hk2 H He Ho I1) as (I2 & F).
          split; [exact I2|]. rewrite F, fvals_app. simpl.
          rewrite (good_tyref _ _ (Some key) G); [reflexivity|].
          intro E. inversion E; subst. apply Hkey.
          destruct G as (nd & Hl & _). apply alookup_In in Hl. apply (in_map fst) in Hl. exact Hl.
        + (* inline object: promotion to <Parent><Prop> *)
          destruct (Hinl key (Obj ps0 req) (or_introl eq_refl) eq_refl) as (p & Hp & Hnt).
          assert (Hnp : nonempty (p ++ cls key) = true).
          { destruct parent as [q|]; simpl in Hp; [|discriminate]. destruct (nonempty q) eqn:Eq; [|discriminate].
            inversion Hp; subst. destruct p; [discriminate|reflexivity]. }
          rewrite Hp in H.
          destruct (rec (Some (p ++ cls key)) (Obj ps0 req) s) as [pr s1] eqn:Er.
          match type of H with parse_props _ _ _ _ (acc ++ [(key, ?h)]) ?sx = _ =>
            pose proof (le_parse_props S rec Hm ps parent (acc ++ [(key, h)]) sx) as L;
            assert (Ev1 : events sx = events s1) by (destruct (flagged pr); reflexivity);
            assert (Oo1 : oof sx = oof s1) by (destruct (flagged pr); reflexivity)
          end.
          rewrite H in L. cbn [snd] in L. destruct L as (L1 & L2 & _). rewrite Ev1 in L1. rewrite Oo1 in L2.
          pose proof (Hrec (Some (p ++ cls key)) (Obj ps0 req) s pr s1 Er (L1 He) (L2 Ho) HI Hnt) as (I1 & G & Reg).
          assert (Hname : i_name pr = Some (p ++ cls key)) by (destruct G as (? & _ & Hn0 & _); exact Hn0).
          assert (Hfl : flagged pr = false).
          { destruct G as (? & _ & _ & (C1 & C2 & C3 & _) & _). unfold flagged. rewrite C1, C2, C3. reflexivity. }
          rewrite Hfl, Hname in H. cbn [option_map] in H. rewrite Hnp in H.
          change (parsed (bump s1)) with (parsed s1) in H. rewrite Reg, N.eqb_refl in H.
          assert (I3 : Inv (reg (p ++ cls key) pr (bump s1))).
          { destruct I1 as [I1a I1c]. split; [|exact I1c]. intros k e Hi. simpl in Hi. apply in_aset in Hi.
            destruct Hi as [Hi|Heq].
            - destruct (I1a _ _ Hi) as [Gk Lk]. split; [exact Gk|]. simpl. lia.
            - inversion Heq; subst. split; [exact G|].
              destruct (I1a _ _ (alookup_In _ _ _ Reg)) as [_ Lk]. simpl. lia. }
          destruct (IH _ _ _ _ _ Hc2 Hin2 Hk2 H He Ho I3) as (I2 & F).
          split; [exact I2|]. rewrite F, fvals_app. simpl. rewrite Hp. reflexivity.
        + (* Arr *)
          simpl in Hc1. rewrite ?orb_false_r in Hc1.
          assert (SA : is_simple_array (Arr pn) = true).
          { simpl. destruct pn; try discriminate; reflexivity. }
          assert (R : (match parent_truthy parent with _ => true end) = true) by reflexivity.
          change (is_simple_primitive (Arr pn)) with false in H. rewrite SA in H. simpl orb in H. cbv iota in H.
          destruct (rec None (Arr pn) s) as [pr s1] eqn:Er.
          cbn [negb andb] in H.
          match type of H with parse_props _ _ _ _ _ ?sx = _ =>
            pose proof (le_parse_props S rec Hm ps parent (acc ++ [(key, set_name (Some key) pr)]) sx) as L end.
          rewrite H in L. simpl in L. destruct L as (L1 & L2 & _).
          assert (CA : core_anon (Arr pn) = true) by (unfold core_anon; simpl; rewrite Hc1; reflexivity).
          assert (NK : forall k, In k (prop_keys (Arr pn)) -> ~ In k (map fst (nt S))) by (intros k0 []).
          pose proof (Hrec None (Arr pn) s pr s1 Er (L1 He) (L2 Ho) HI CA NK) as (I1 & (id & it & -> & Hit & Hold)).
          simpl i_id in H. rewrite (update_id_older _ _ _ Hold) in H.
          assert (I1' : Inv (w_parsed (parsed s1) s1)) by exact I1.
          destruct (IH _ _ _ _ _ Hc2 Hin2 Hk2 H He Ho I1') as (I2 & F).
          split; [exact I2|]. rewrite F, fvals_app. simpl. rewrite str_eqb_refl, Hit. reflexivity.
        + (* Prim *)
          change (is_simple_primitive (Prim k)) with true in H. simpl orb in H. cbv iota in H.
          destruct (rec None (Prim k) s) as [pr s1] eqn:Er.
          cbn [negb andb] in H.
          match type of H with parse_props _ _ _ _ _ ?sx = _ =>
            pose proof (le_parse_props S rec Hm ps parent (acc ++ [(key, set_name (Some key) pr)]) sx) as L end.
          rewrite H in L. simpl in L. destruct L as (L1 & L2 & _).
          assert (CA : core_anon (Prim k) = true) by reflexivity.
          assert (NK : forall k0, In k0 (prop_keys (Prim k)) -> ~ In k0 (map fst (nt S))) by (intros k0 []).
          pose proof (Hrec None (Prim k) s pr s1 Er (L1 He) (L2 Ho) HI CA NK) as (I1 & (id & -> & Hold & _)).
          simpl i_id in H. rewrite (update_id_older _ _ _ Hold) in H.
          assert (I1' : Inv (w_parsed (parsed s1) s1)) by exact I1.
          destruct (IH _ _ _ _ _ Hc2 Hin2 Hk2 H He Ho I1') as (I2 & F).
          split; [exact I2|]. rewrite F, fvals_app. simpl. rewrite str_eqb_refl. reflexivity.
    Qed.

    (* ---------------- allOf members *)
    Lemma list_ok : forall l s ms s',
      forallb core_member l = true ->
      (forall x k, In x l -> In k (prop_keys x) -> ~ In k (map fst (nt S))) ->
      (forall m, In (Ref m) l -> In m (map fst S)) ->
      parse_list rec l s = (ms, s') -> events s' = [] -> oof s' = false -> Inv s ->
      Inv s' /\ Forall2 (member_ok None) l ms.
    Proof.
      induction l as [|x l IH]; intros s ms s' Hc Hkeys Hrf H He Ho HI; simpl in H.
      - inversion H; subst. split; [exact HI | constructor].
      - simpl in Hc. apply andb_true_iff in Hc. destruct Hc as [Hc1 Hc2].
        destruct (rec None x s) as [i s1] eqn:E1. destruct (parse_list rec l s1) as [is_ s2] eqn:E2.
        inversion H; subst.
        pose proof (le_parse_list rec Hm l s1) as L. rewrite E2 in L. simpl in L. destruct L as (L1 & L2 & _).
        assert (CA : core_anon x = true).
        { unfold core_anon, core_member in *. destruct x; try discriminate; simpl in *; try reflexivity.
          rewrite ?orb_false_r in Hc1. exact Hc1. }
        pose proof (Hrec None x s i s1 E1 (L1 He) (L2 Ho) HI CA (fun k => Hkeys x k (or_introl eq_refl))) as (I1 & A).
        destruct (IH _ _ _ Hc2 (fun y k Hy => Hkeys y k (or_intror Hy)) (fun m Hm0 => Hrf m (or_intror Hm0)) E2 He Ho I1) as (I2 & F).
        split; [exact I2|]. constructor; [|exact F].
        unfold core_member in Hc1. destruct x; try discriminate; simpl in A.
        + apply good_member_ref; [apply Hrf; left; reflexivity | apply A].
        + apply A.
        + destruct A as (id & -> & _). exists 1%nat, ([], []). simpl. auto.
        + destruct A as (id & -> & _). exists 1%nat, ([], []). simpl. auto.
    Qed.
  End WithRec.

  (* ---------------- the merge commutes with taking the type of each property *)
  Lemma fvals_lookup_none : forall l k, alookup k (fvals l) = None <-> alookup k l = None.
  Proof.
    induction l as [|[k' v'] l IH]; intros k; simpl; [tauto|].
    destruct (str_eqb k k'); [split; discriminate | apply IH].
  Qed.

  Lemma fvals_merge_into : forall ps acc, fvals (merge_into acc ps) = merge_into (fvals acc) (fvals ps).
  Proof.
    induction ps as [|[k v] ps IH]; intros acc; [reflexivity|].
    unfold merge_into in *. simpl. rewrite IH. f_equal. unfold add_first. simpl.
    destruct (alookup k acc) eqn:E.
    - destruct (alookup k (fvals acc)) eqn:E2; [reflexivity|]. apply fvals_lookup_none in E2. congruence.
    - apply fvals_lookup_none in E. rewrite E. unfold fvals. rewrite map_app. reflexivity.
  Qed.

  Definition tmember (r : ir) : dmember := (fvals (i_props r), i_req r).

  Lemma fvals_merge_fold : forall ms acc,
    fvals (fold_left (fun acc m => merge_into acc (fst m)) (map as_member ms) acc)
    = fold_left (fun acc m => merge_into acc (fst m)) (map tmember ms) (fvals acc).
  Proof.
    induction ms as [|r ms IH]; intros acc; simpl; [reflexivity|].
    rewrite IH, fvals_merge_into. reflexivity.
  Qed.

  Lemma fvals_merge : forall ms, fvals (merge_props (map as_member ms)) = merge_props (map tmember ms).
  Proof. intros. unfold merge_props. rewrite fvals_merge_fold. reflexivity. Qed.

  Lemma req_merge : forall ms, merge_req [] (map as_member ms) = merge_req [] (map tmember ms).
  Proof. intros. unfold merge_req. simpl. f_equal. rewrite !map_map. reflexivity. Qed.

  Lemma members_common_fuel : forall l ms, Forall2 (member_ok None) l ms ->
    exists F, Forall2 (fun x r => decl_node F S None x = Some (tmember r)) l ms.
  Proof.
    induction 1 as [|x r l ms (f & m & Hd & H1 & H2) _ (F & IH)].
    - exists O. constructor.
    - exists (Nat.max f F). constructor.
      + apply (decl_node_mono f); [lia|]. rewrite Hd. unfold tmember. rewrite H1, H2. destruct m; reflexivity.
      + clear - IH. induction IH as [|a b l' ms' Hab _ IH']; constructor; [|exact IH'].
        apply (decl_node_mono F); [lia | exact Hab].
  Qed.

  Lemma decl_members_run : forall F l ms acc,
    Forall2 (fun x r => decl_node F S None x = Some (tmember r)) l ms ->
    decl_members (decl_node F S None) l acc
    = Some (merge_props (rev acc ++ map tmember ms), merge_req [] (rev acc ++ map tmember ms)).
  Proof.
    induction l as [|x l IH]; intros ms acc H; inversion H; subst; simpl.
    - rewrite app_nil_r. reflexivity.
    - rewrite H2. rewrite (IH _ _ H4). simpl. rewrite <- !app_assoc. reflexivity.
  Qed.

  Lemma allof_member_ok : forall pn l ms x, Forall2 (member_ok None) l ms ->
    i_props x = merge_props (map as_member ms) -> i_req x = merge_req [] (map as_member ms) ->
    member_ok pn (AllOf l) x.
  Proof.
    intros pn l ms x H Hp Hr. destruct (members_common_fuel _ _ H) as [F HF].
    exists (Datatypes.S F), (merge_props (map tmember ms), merge_req [] (map tmember ms)).
    split; [simpl; rewrite (decl_members_run _ _ _ _ HF); reflexivity|].
    simpl. rewrite Hp, Hr, fvals_merge, req_merge. auto.
  Qed.
End InvProofs.

Section StepProofs.
  Variable md : N.
  Variable S : spec.
  Hypothesis HS : inl_spec S = true.
  Notation Inv := (Inv S).
  Notation good := (good S).
  Notation member_ok := (member_ok S).
  Notation rec_ok := (rec_ok S).
  Notation anon_ok := (anon_ok S).

  Lemma Inv_bump : forall s, Inv s -> Inv (bump s).
  Proof.
    intros s [H C]. split; [|exact C]. intros k e Hin. destruct (H k e Hin) as [G L]. split; [exact G|].
    simpl. lia.
  Qed.

  Lemma Inv_tracker : forall s s', parsed s' = parsed s -> nid s' = nid s -> cycles s' = cycles s -> Inv s -> Inv s'.
  Proof. intros s s' P N C [H Cy]. split; [|congruence]. intros k e Hin. rewrite P in Hin. rewrite N. apply H, Hin. Qed.

  (* registration of a fresh, clean IR under the declared name it was parsed for *)
  Lemma finish_named : forall n nd x s r s',
    alookup n (nt S) = Some nd -> cls n = n -> nonempty n = true ->
    (match i_ty x with Some (TyPrim _) => negb (i_enum x) | _ => false end
     && negb (match alookup n S with Some _ => true | None => false end)) = false ->
    finish S (Some n) x s = (r, s') -> events s' = [] -> Inv s ->
    i_name x = Some n -> clean_ir x -> member_ok (Some n) nd x -> kind_ok nd x -> (i_id x < nid s)%N ->
    Inv s' /\ r = x /\ alookup n (parsed s') = Some x.
  Proof.
    intros n nd x s r s' Hl Hcls Hne T H He HI Hn Hc Hmem Hkind Hid.
    unfold finish in H. rewrite Hne in H. simpl negb in H. cbv iota in H.
    rewrite T in H. unfold registered in H. rewrite Hcls in H.
    destruct (alookup n (parsed s)) as [e|] eqn:E.
    - (* already registered: either shadowed or overwrite, both leave an event *)
      exfalso. destruct (i_circ e).
      + inversion H; subst. discriminate.
      + match type of H with context [find ?f (cycles ?t)] => destruct (find f (cycles t)) end;
          [destruct (_ || _)|]; inversion H; subst; simpl in He; discriminate.
    - 
      destruct HI as [HI Cy].
      assert (Cy' : cycles (reg n x s) = []) by exact Cy.
      rewrite Cy' in H. simpl in H. inversion H; subst. clear H.
      split; [|split; [reflexivity | simpl; apply alookup_aset_same]].
      split; [|exact Cy]. intros k e Hin. simpl in Hin. apply in_aset in Hin. destruct Hin as [Hin|Heq].
      + apply HI, Hin.
      + inversion Heq; subst. split; [|exact Hid]. exists nd. auto.
  Qed.

  Lemma exit_shape : forall name s,
    parsed (exit_schema name s) = parsed s /\ nid (exit_schema name s) = nid s
    /\ cycles (exit_schema name s) = cycles s /\ events (exit_schema name s) = events s
    /\ oof (exit_schema name s) = oof s.
  Proof.
    intros name s. unfold exit_schema.
    destruct (0 <? depth s); destruct name as [n|]; try (repeat split; reflexivity);
      destruct (nonempty n); try (repeat split; reflexivity);
      match goal with |- context [mem_str n ?l] => destruct (mem_str n l) end;
      match goal with |- context [state_of ?t n] => destruct (state_of t n) end; repeat split; reflexivity.
  Qed.

  Lemma enter_shape : forall name s a ph s1,
    enter md name s = (a, ph, s1) -> events s1 = [] ->
    parsed s1 = parsed s /\ nid s1 = nid s /\ cycles s1 = cycles s /\ events s = [] /\ oof s1 = oof s
    /\ a <> ACreate /\ (name = None -> a = AContinue).
  Proof.
    intros name s a ph s1 H He. unfold enter in H. destruct name as [n|].
    - unfold cycle_check in H. simpl in H.
      destruct (state_of (w_depth (depth s + 1) s) n); simpl in H;
        try (inversion H; subst; simpl in *; repeat split; auto; discriminate);
        (destruct (md <? depth s + 1); [inversion H; subst; simpl in He; discriminate|]);
        (destruct (mem_str n (stack s));
         [destruct (Nat.eqb _ 2); destruct (should_store _ _ _); inversion H; subst; simpl in He; discriminate|]);
        simpl in H; destruct (nonempty n); inversion H; subst; simpl in *; repeat split; auto; discriminate.
    - inversion H; subst. simpl in *. repeat split; auto. discriminate.
  Qed.

  Lemma anon_ok_ext : forall s s' t t' nd r,
    parsed t = parsed s -> parsed t' = parsed s' -> anon_ok s s' nd r -> anon_ok t t' nd r.
  Proof.
    intros s s' t t' nd r P P' H. unfold Parser.anon_ok, older, registered in *. rewrite P, P'. exact H.
  Qed.

  Section WithRec.
    Variable rec : option str -> node -> st -> ir * st.
    Hypothesis Hrec : rec_ok rec.
    Hypothesis Hm : mono rec.

    Lemma clean_mk : forall id nm ty ps rq it ap ao oo al en,
      (forall n, ty <> Some (TyNamed n)) ->
      clean_ir (IR id nm ty ps rq it ap ao oo al en false false false false).
    Proof. intros. unfold clean_ir. simpl. auto. Qed.

    Lemma body_anon : forall nd s r s',
      parse_body S rec None nd s = (r, s') -> events s' = [] -> oof s' = false -> Inv s ->
      core_anon nd = true -> (forall k, In k (prop_keys nd) -> ~ In k (map fst (nt S))) ->
      Inv s' /\ anon_ok s s' nd r.
    Proof.
      intros nd s r s' H He Ho HI Hc Hk. destruct nd; try discriminate; simpl in H.
      - (* Ref *)
        destruct (resolve_ref S rec n s) as [r0 s1] eqn:E. inversion H; subst.
        destruct (resolve_ok S rec Hrec _ _ _ _ E He Ho HI) as (A & B & C & D). split; [exact A|]. simpl. auto.
      - (* Obj *)
        destruct (parse_props S rec ps None [] s) as [props s1] eqn:E. inversion H; subst. clear H.
        simpl in He, Ho. unfold core_anon in Hc. simpl in Hc.
        destruct (props_ok S rec Hrec Hm _ _ _ _ _ _ Hc Hk E He Ho HI) as (I1 & F).
        split; [apply Inv_bump, I1|]. simpl. split; [reflexivity|].
        exists 1%nat, (merge_into [] (map (fun kv => (fst kv, ty_of (snd kv))) ps), req).
        simpl. rewrite (core_props_ty None ps Hc). auto.
      - (* Arr *)
        unfold core_anon in Hc. simpl in Hc. rewrite !orb_false_r in Hc.
        destruct (parse_items rec None nd s) as [it s1] eqn:E1.
        destruct (parse_items rec None nd (bump s1)) as [it2 s2] eqn:E2.
        inversion H; subst. clear H.
        pose proof (le_parse_items rec Hm None nd (bump s1)) as L. rewrite E2 in L. simpl in L. destruct L as (L1 & L2 & _).
        destruct (items_ok S rec Hrec _ _ _ _ _ Hc E1 (L1 He) (L2 Ho) HI) as (I1 & A1).
        destruct (items_ok S rec Hrec _ _ _ _ _ Hc E2 He Ho (Inv_bump _ I1)) as (I2 & A2).
        split; [exact I2|]. simpl. exists (nid s1), it2. split; [reflexivity|].
        split; [eapply item_ty; eassumption|].
        assert (P : parsed s' = parsed s1).
        { destruct nd; try discriminate; simpl in A1, A2.
          - destruct A2 as (_ & _ & St). apply St. unfold registered. simpl.
            destruct A1 as (_ & Al & _). rewrite Al. reflexivity.
          - destruct A2 as (? & _ & _ & P). exact P.
          - destruct A2 as (? & _ & _ & P). exact P. }
        unfold older. rewrite P. apply (Inv_older S s1 I1).
      - (* Prim *)
        inversion H; subst. split; [apply Inv_bump, HI|]. simpl. exists (nid s).
        split; [reflexivity|]. split; [apply (Inv_older S s HI) | reflexivity].
      - (* EnumN *)
        inversion H; subst. split; [apply Inv_bump, HI|]. simpl. exists (nid s).
        split; [reflexivity|]. split; [apply (Inv_older S s HI) | reflexivity].
    Qed.

    Lemma body_named : forall n nd s r s',
      parse_body S rec (Some n) nd s = (r, s') -> events s' = [] -> oof s' = false -> Inv s ->
      alookup n (nt S) = Some nd ->
      Inv s' /\ good n r /\ alookup n (parsed s') = Some r.
    Proof.
      intros n nd s r s' H He Ho HI Hl.
      destruct (nt_cases S HS _ _ Hl) as [HlS | (HlN & Hco & Hcls & Hne & Hk)].
      2: { (* a promoted inline object of core properties *)
        destruct nd; try discriminate. cbn -[finish parse_props parse_items parse_list] in H. rewrite Hne, Hcls in H.
        simpl in Hco.
        destruct (parse_props S rec ps (Some n) [] s) as [props s1] eqn:E.
        set (X := IR (nid s1) (Some n) (Some TyObject) props req None None None None false false false false false false) in *.
        pose proof (le_finish S (Some n) X (bump s1)) as L.
        rewrite H in L. simpl in L. destruct L as (L1 & L2 & _). simpl in L1, L2.
        destruct (props_ok S rec Hrec Hm _ _ _ _ _ _ Hco Hk E (L1 He) (L2 Ho) HI) as (I1 & F).
        assert (Mem : member_ok (Some n) (Obj ps req) X).
        { exists 1%nat, (merge_into [] (map (fun kv => (fst kv, ty_of (snd kv))) ps), req).
          simpl. rewrite (core_props_ty (Some n) ps Hco). auto. }
        assert (Cl : clean_ir X) by (apply clean_mk; discriminate).
        assert (Lt : (i_id X < nid (bump s1))%N) by (simpl; lia).
        assert (TT : (match i_ty X with Some (TyPrim _) => negb (i_enum X) | _ => false end
                      && negb (match alookup n S with Some _ => true | None => false end)) = false) by reflexivity.
        destruct (finish_named n (Obj ps req) X (bump s1) r s' Hl Hcls Hne TT H He (Inv_bump _ I1) eq_refl Cl Mem (conj eq_refl (conj eq_refl (conj eq_refl eq_refl))) Lt) as (A & -> & C).
        split; [exact A|]. split; [|exact C]. exists (Obj ps req). split; [exact Hl|]. split; [reflexivity|].
        split; [exact Cl|]. split; [exact Mem | repeat split; reflexivity]. }
      destruct (spec_facts S HS _ _ HlS) as (Hc & Hcls & Hne & Hk0 & Hrf).
      assert (Hk : forall k, In k (prop_keys nd) -> ~ In k (map fst (nt S)))
        by (intros k Hin0; apply Hk0; unfold deep_keys; apply in_or_app; left; exact Hin0).
      assert (T : forall x : ir, (match i_ty x with Some (TyPrim _) => negb (i_enum x) | _ => false end
                   && negb (match alookup n S with Some _ => true | None => false end)) = false)
        by (intros x; rewrite HlS; simpl; apply andb_false_r).
      assert (G : forall x t t', finish S (Some n) x t = (r, t') -> events t' = [] -> Inv t ->
                  i_name x = Some n -> clean_ir x -> member_ok (Some n) nd x -> kind_ok nd x -> (i_id x < nid t)%N ->
                  Inv t' /\ good n r /\ alookup n (parsed t') = Some r).
      { intros x t t' Hf Hev Hi Hn Hcl Hmem Hkind Hid.
        destruct (finish_named _ _ _ _ _ _ Hl Hcls Hne (T x) Hf Hev Hi Hn Hcl Hmem Hkind Hid) as (A & -> & C).
        split; [exact A|]. split; [|exact C]. exists nd. auto. }
      destruct nd; try discriminate; cbn -[finish parse_props parse_items parse_list] in H; rewrite Hne, Hcls in H.
      - (* Obj *)
        destruct (parse_props S rec ps (Some n) [] s) as [props s1] eqn:E.
        pose proof (le_finish S (Some n) (IR (nid s1) (Some n) (Some TyObject) props req None None None None false false false false false false) (bump s1)) as L.
        rewrite H in L. simpl in L. destruct L as (L1 & L2 & _). simpl in L1, L2.
        assert (Hinl : forall key pn, In (key, pn) ps -> is_obj pn = true ->
                  exists p, parent_truthy (Some n) = Some p /\ alookup (p ++ cls key) (nt S) = Some pn).
        { intros key pn Hi Hob. exists n. split; [simpl; rewrite Hne; reflexivity|].
          eapply (nt_inline S HS); eauto. }
        destruct (props_ok_inl S rec Hrec Hm _ _ _ _ _ _ Hc Hinl Hk E (L1 He) (L2 Ho) HI) as (I1 & F).
        eapply G; [exact H | exact He | apply Inv_bump, I1 | reflexivity | apply clean_mk; discriminate | | repeat split; reflexivity | simpl; lia].
        exists 1%nat, (merge_into [] (map (fun kv => (fst kv, ty_of_prop (Some n) (fst kv) (snd kv))) ps), req).
        simpl. auto.
      - (* Arr *)
        simpl in Hc.
        destruct (parse_items rec (Some n) nd s) as [it s1] eqn:E1.
        destruct (parse_items rec (Some n) nd (bump s1)) as [it2 s2] eqn:E2.
        match type of H with finish _ _ ?x _ = _ => pose proof (le_finish S (Some n) x s2) as L end.
        rewrite H in L. simpl in L. destruct L as (L1 & L2 & _).
        pose proof (le_parse_items rec Hm (Some n) nd (bump s1)) as L'. rewrite E2 in L'. simpl in L'.
        destruct L' as (L1' & L2' & L3' & _). simpl in L3'.
        destruct (items_ok S rec Hrec _ _ _ _ _ Hc E1 (L1' (L1 He)) (L2' (L2 Ho)) HI) as (I1 & A1).
        destruct (items_ok S rec Hrec _ _ _ _ _ Hc E2 (L1 He) (L2 Ho) (Inv_bump _ I1)) as (I2 & A2).
        eapply G; [exact H | exact He | exact I2 | reflexivity | apply clean_mk; discriminate | | | simpl; lia].
        { exists 1%nat, ([], []). simpl. auto. }
        { unfold kind_ok, struct_of. cbn. rewrite str_eqb_refl. cbn. f_equal. eapply item_ty; eassumption. }
      - (* OneOf *)
        simpl in Hc.
        destruct (parse_list rec l s) as [ms s1] eqn:E.
        match type of H with finish _ _ ?x _ = _ => pose proof (le_finish S (Some n) x (bump s1)) as L end.
        rewrite H in L. simpl in L. destruct L as (L1 & L2 & _). simpl in L1, L2.
        destruct (list_ok S HS rec Hrec Hm _ _ _ _ (core_items_members _ Hc)
                    (fun x k Hx Hkx => False_ind _ (core_items_nokeys _ Hc x k Hx Hkx))
                    (fun m Hm0 => Hrf m (refs_members l m Hm0)) E (L1 He) (L2 Ho) HI) as (I1 & _).
        eapply G; [exact H | exact He | apply Inv_bump, I1 | reflexivity
                  | apply clean_mk; intros n0; destruct (filter_members ms); discriminate | | exact I | simpl; lia].
        exists 1%nat, ([], []). simpl. auto.
      - (* AnyOf *)
        simpl in Hc.
        destruct (parse_list rec l s) as [ms s1] eqn:E.
        match type of H with finish _ _ ?x _ = _ => pose proof (le_finish S (Some n) x (bump s1)) as L end.
        rewrite H in L. simpl in L. destruct L as (L1 & L2 & _). simpl in L1, L2.
        destruct (list_ok S HS rec Hrec Hm _ _ _ _ (core_items_members _ Hc)
                    (fun x k Hx Hkx => False_ind _ (core_items_nokeys _ Hc x k Hx Hkx))
                    (fun m Hm0 => Hrf m (refs_members l m Hm0)) E (L1 He) (L2 Ho) HI) as (I1 & _).
        eapply G; [exact H | exact He | apply Inv_bump, I1 | reflexivity
                  | apply clean_mk; intros n0; destruct (filter_members ms); discriminate | | exact I | simpl; lia].
        exists 1%nat, ([], []). simpl. auto.
      - (* AllOf *)
        simpl in Hc.
        destruct (parse_list rec l s) as [ms s1] eqn:E.
        match type of H with finish _ _ ?x _ = _ => pose proof (le_finish S (Some n) x (bump s1)) as L end.
        rewrite H in L. simpl in L. destruct L as (L1 & L2 & _). simpl in L1, L2.
        assert (Hk' : forall x k, In x l -> In k (prop_keys x) -> ~ In k (map fst (nt S))).
        { intros x k Hx Hkx. apply Hk. clear - Hx Hkx. simpl.
          induction l as [|y l IH]; [contradiction|]. apply in_or_app.
          destruct Hx as [->|Hx]; [left; exact Hkx | right; apply IH, Hx]. }
        destruct (list_ok S HS rec Hrec Hm _ _ _ _ Hc Hk' (fun m Hm0 => Hrf m (refs_members l m Hm0)) E (L1 He) (L2 Ho) HI) as (I1 & F).
        eapply G; [exact H | exact He | apply Inv_bump, I1 | reflexivity | apply clean_mk; discriminate | | repeat split; reflexivity | simpl; lia].
        eapply allof_member_ok; [exact F | reflexivity | reflexivity].
      - (* Prim *)
        eapply G; [exact H | exact He | apply Inv_bump, HI | reflexivity | apply clean_mk; discriminate | | | simpl; lia].
        { exists 1%nat, ([], []). simpl. auto. }
        { unfold kind_ok, struct_of. cbn. rewrite str_eqb_refl. reflexivity. }
      - (* EnumN *)
        eapply G; [exact H | exact He | apply Inv_bump, HI | reflexivity | apply clean_mk; discriminate | | | simpl; lia].
        { exists 1%nat, ([], []). simpl. auto. }
        { unfold kind_ok, struct_of. cbn. rewrite str_eqb_refl. reflexivity. }
      - (* MapN *)
        simpl in Hc.
        destruct (rec None nd s) as [ap s1] eqn:E.
        match type of H with finish _ _ ?x _ = _ => pose proof (le_finish S (Some n) x (bump s1)) as L end.
        rewrite H in L. simpl in L. destruct L as (L1 & L2 & _). simpl in L1, L2.
        assert (CA : core_anon nd = true) by (unfold core_anon; rewrite Hc, orb_true_r; reflexivity).
        assert (NK : forall k, In k (prop_keys nd) -> ~ In k (map fst (nt S))) by (destruct nd; try discriminate; intros k0 []).
        pose proof (Hrec None nd s ap s1 E (L1 He) (L2 Ho) HI CA NK) as (I1 & A1).
        eapply G; [exact H | exact He | apply Inv_bump, I1 | reflexivity | apply clean_mk; discriminate | | | simpl; lia].
        { exists 1%nat, ([], []). simpl. auto. }
        { unfold kind_ok, struct_of. cbn. rewrite str_eqb_refl. cbn. f_equal. eapply item_ty; eassumption. }
    Qed.

    Lemma step_ok : rec_ok (step md S rec).
    Proof.
      intros name nd s r s' H He Ho HI. unfold step in H.
      destruct (enter md name s) as [[a ph] s1] eqn:Een.
      assert (B : forall t, events t = [] -> parsed t = parsed s -> nid t = nid s -> cycles t = cycles s ->
                  (let '(r0, s2) := parse_body S rec name nd t in (r0, exit_schema name s2)) = (r, s') ->
                  match name with
                  | None => core_anon nd = true -> (forall k, In k (prop_keys nd) -> ~ In k (map fst (nt S))) ->
                            Inv s' /\ anon_ok s s' nd r
                  | Some n => alookup n (nt S) = Some nd -> Inv s' /\ good n r /\ alookup n (parsed s') = Some r
                  end).
      { intros t Et Pt Nt Ct Hb. destruct (parse_body S rec name nd t) as [r0 s2] eqn:Eb.
        inversion Hb; subst. destruct (exit_shape name s2) as (P & N & C & Ev & Oo).
        rewrite Ev in He. rewrite Oo in Ho.
        assert (It : Inv t) by (apply (Inv_tracker s); auto).
        destruct name as [n|].
        - intros Hl. destruct (body_named _ _ _ _ _ Eb He Ho It Hl) as (A1 & A2 & A3).
          split; [apply (Inv_tracker s2); auto|]. split; [exact A2|]. rewrite P. exact A3.
        - intros Hc Hk. destruct (body_anon _ _ _ _ Eb He Ho It Hc Hk) as (A1 & A2).
          split; [apply (Inv_tracker s2); auto|]. eapply anon_ok_ext; [| |exact A2]; [symmetry; exact Pt | exact P]. }
      destruct a.
      - (* CONTINUE *)
        assert (E1 : events s1 = []).
        { pose proof (le_parse_body S rec Hm name nd s1) as L.
          destruct (parse_body S rec name nd s1) as [r0 s2]. inversion H; subst.
          destruct (exit_shape name s2) as (_ & _ & _ & Ev & _). rewrite Ev in He. apply L, He. }
        destruct (enter_shape _ _ _ _ _ Een E1) as (P & N & C & _). apply (B s1); auto.
      - (* RETURN_EXISTING: leaves an event on every path *)
        destruct (exit_shape name s1) as (_ & _ & _ & Ev & _).
        assert (Hbody : forall t, events t <> [] ->
                  (let '(r0, s2) := parse_body S rec name nd t in (r0, exit_schema name s2)) = (r, s') -> False).
        { intros t Ht Hb. pose proof (le_parse_body S rec Hm name nd t) as L.
          destruct (parse_body S rec name nd t) as [r0 s2]. inversion Hb; subst.
          destruct (exit_shape name s2) as (_ & _ & _ & Ev2 & _). rewrite Ev2 in He. apply Ht, L, He. }
        destruct name as [n|].
        + destruct (nonempty n) eqn:Hne.
          * exfalso. destruct (alookup n (parsed (exit_schema (Some n) s1))).
            -- inversion H; subst. discriminate.
            -- eapply Hbody; [|exact H]. discriminate.
          * intros Hl. destruct (nt_cases S HS _ _ Hl) as [HlS|(_ & _ & _ & Hne' & _)];
              [destruct (spec_facts S HS _ _ HlS) as (_ & _ & Hne' & _)|]; congruence.
        + exfalso.
          assert (E1 : events s1 = []).
          { pose proof (le_parse_body S rec Hm None nd (exit_schema None s1)) as L.
            destruct (parse_body S rec None nd (exit_schema None s1)) as [r0 s2] eqn:Eb.
            pose proof (f_equal snd H) as Hs. cbn [snd] in Hs. rewrite <- Hs in He.
            destruct (exit_shape None s2) as (_ & _ & _ & Ev2 & _). rewrite Ev2 in He.
            rewrite <- Ev. apply L, He. }
          destruct (enter_shape _ _ _ _ _ Een E1) as (_ & _ & _ & _ & _ & _ & Hn).
          specialize (Hn eq_refl). discriminate.
      - (* RETURN_PLACEHOLDER *)
        exfalso.
        destruct name as [n|]; [destruct (alookup n _)|]; inversion H; subst; simpl in He; discriminate.
      - (* CREATE_PLACEHOLDER *)
        exfalso.
        assert (E1 : events s1 = []).
        { destruct (exit_shape name s1) as (_ & _ & _ & Ev & _).
          destruct ph; inversion H; subst; simpl in He; rewrite <- Ev; exact He. }
        destruct (enter_shape _ _ _ _ _ Een E1) as (_ & _ & _ & _ & _ & Hn & _). apply Hn; reflexivity.
    Qed.
  End WithRec.
End StepProofs.


Section Final.
  Variable md : N.
  Variable S : spec.
  Hypothesis HS : inl_spec S = true.

  Lemma parse_schema_ok : forall fuel, rec_ok S (parse_schema md S fuel).
  Proof.
    induction fuel as [|f IH].
    - intros name nd s r s' H He Ho HI. simpl in H. inversion H; subst. simpl in Ho. discriminate.
    - simpl. apply step_ok; [exact HS | exact IH | apply mono_parse_schema].
  Qed.

  Lemma build_pass_ok : forall fuel l s,
    (forall n nd, In (n, nd) l -> alookup n S = Some nd) ->
    Inv S s -> events (build_pass md S fuel l s) = [] -> oof (build_pass md S fuel l s) = false ->
    Inv S (build_pass md S fuel l s).
  Proof.
    induction l as [|[n nd] l IH]; intros s Hl HI He Ho; simpl in *; [exact HI|].
    assert (Hl' : forall n0 nd0, In (n0, nd0) l -> alookup n0 S = Some nd0) by (intros; apply Hl; right; assumption).
    destruct (unparsed n s && unparsed (cls n) s); [|apply IH; assumption].
    destruct (parse_schema md S fuel (Some n) nd (set_state n NotStarted s)) as [r s1] eqn:E. simpl in *.
    pose proof (le_build_pass md S fuel l s1) as (L1 & L2 & _).
    assert (HI0 : Inv S (set_state n NotStarted s)) by (apply (Inv_tracker S s); auto).
    pose proof (parse_schema_ok fuel (Some n) nd _ r s1 E (L1 He) (L2 Ho) HI0 (nt_declared _ _ _ (Hl n nd (or_introl eq_refl)))) as (I1 & _).
    apply IH; assumption.
  Qed.

  Lemma build_iter_ok : forall k fuel pend prev s,
    nodup_strs (map fst S) = true -> (forall x, In x pend -> In x S) ->
    Inv S s -> events (build_iter md S k fuel pend prev s) = [] -> oof (build_iter md S k fuel pend prev s) = false ->
    Inv S (build_iter md S k fuel pend prev s).
  Proof.
    induction k as [|k IH]; intros fuel pend prev s ND Hsub HI He Ho; cbn [build_iter] in *; [exact HI|].
    destruct (is_nil pend || same_names prev pend); [exact HI|].
    pose proof (le_build_iter md S k fuel (filter (cutoff_b (build_pass md S fuel pend s)) S) (Some pend)
                  (build_pass md S fuel pend s)) as (L1 & L2 & _).
    apply IH; try assumption.
    - intros x Hx. apply filter_In in Hx. apply Hx.
    - apply build_pass_ok; auto.
      intros n nd Hin. apply nodup_alookup; [exact ND | apply Hsub; exact Hin].
  Qed.

  Lemma build_ok : forall fuel s,
    nodup_strs (map fst S) = true ->
    Inv S s -> events (build md S fuel s) = [] -> oof (build md S fuel s) = false ->
    Inv S (build md S fuel s).
  Proof. intros. apply build_iter_ok; auto. Qed.

  Lemma Inv_st0 : Inv S st0.
  Proof. split; [intros k e []|reflexivity]. Qed.

  Theorem C02_core : 
    let s := parse_doc md S in
    events s = [] -> oof s = false -> all_present S s = true ->
    forall n, In n (map fst S) -> faithful S s n.
  Proof.
    intros s He Ho Hp n Hn.
    assert (ND : nodup_strs (map fst S) = true) by (apply (names_nodup S HS)).
    assert (HI : Inv S s).
    { apply build_ok; [exact ND | apply Inv_st0 | exact He | exact Ho]. }
    apply in_map_iff in Hn. destruct Hn as [[n' nd] [Hn' Hin]]. simpl in Hn'. subst n'.
    pose proof (nodup_alookup _ _ _ ND Hin) as Hl.
    destruct (spec_facts S HS _ _ Hl) as (_ & Hcls & _).
    unfold all_present in Hp. rewrite forallb_forall in Hp. specialize (Hp _ Hin). simpl in Hp.
    rewrite Hcls, orb_diag in Hp. unfold registered in Hp.
    destruct (alookup n (parsed s)) as [e|] eqn:E; [|discriminate].
    destruct HI as [HI _]. destruct (HI _ _ (alookup_In _ _ _ E)) as [(nd' & Hl' & _ & Hc & (f & m & Hd & H1 & H2) & _) _].
    rewrite (nt_declared _ _ _ Hl) in Hl'. inversion Hl'; subst nd'.
    exists e. split; [exact E|]. split.
    - destruct Hc as (C1 & C2 & C3 & C4 & _). unfold flags_of. rewrite C1, C2, C3, C4. reflexivity.
    - exists f. unfold declared_f. rewrite Hl, Hd. simpl. f_equal.
      unfold fields_of_member, fields_of. rewrite <- H1, <- H2. unfold fvals. rewrite map_map. reflexivity.
  Qed.

  (* the schema's own model has the structural kind the document gives it *)
  Theorem C02_core_kind :
    let s := parse_doc md S in
    events s = [] -> oof s = false -> all_present S s = true ->
    forall n nd, alookup n S = Some nd -> exists e, alookup n (parsed s) = Some e /\ kind_ok nd e.
  Proof.
    intros s He Ho Hp n nd Hl.
    assert (ND : nodup_strs (map fst S) = true) by (apply (names_nodup S HS)).
    assert (HI : Inv S s) by (apply build_ok; [exact ND | apply Inv_st0 | exact He | exact Ho]).
    destruct (spec_facts S HS _ _ Hl) as (_ & Hcls & _).
    unfold all_present in Hp. rewrite forallb_forall in Hp. specialize (Hp _ (alookup_In _ _ _ Hl)). simpl in Hp.
    rewrite Hcls, orb_diag in Hp. unfold registered in Hp.
    destruct (alookup n (parsed s)) as [e|] eqn:E; [|discriminate].
    destruct HI as [HI _]. destruct (HI _ _ (alookup_In _ _ _ E)) as [(nd' & Hl' & _ & _ & _ & Hk) _].
    rewrite (nt_declared _ _ _ Hl) in Hl'. inversion Hl'; subst nd'. exists e. auto.
  Qed.
End Final.


(* non-vacuity *)
Definition sPet : str := [80;101;116].
Definition sAnimal : str := [65;110;105;109;97;108].
Definition sKind : str := [75;105;110;100].
Definition sTag : str := [84;97;103].
Definition stag : str := [116;97;103].
Definition snames : str := [110;97;109;101;115].
Definition sident : str := [105;100;101;110;116].
Definition skind : str := [107;105;110;100].
Definition slabel : str := [108;97;98;101;108].
Definition spec_ok : spec :=
  [(sPet, AllOf [Ref sAnimal; Obj [(stag, Ref sTag); (snames, Arr (Prim PString))] [stag]]);
   (sAnimal, Obj [(sident, Prim PInteger); (skind, Ref sKind)] [sident]);
   (sKind, EnumN);
   (sTag, Obj [(slabel, Prim PString)] [])].
Example guard_nonvacuous :
  core_spec spec_ok = true /\ events (parse_doc default_max_depth spec_ok) = []
  /\ oof (parse_doc default_max_depth spec_ok) = false /\ all_present spec_ok (parse_doc default_max_depth spec_ok) = true
  /\ model_fields (parse_doc default_max_depth spec_ok) sPet
     = Some [(sident, true, TPrim PInteger); (skind, false, TRef sKind); (stag, true, TRef sTag); (snames, false, TList (TPrim PString))].
Proof. vm_compute. repeat split. Qed.

(* contrapositive: on the core fragment a schema can only lose its fidelity when one of the logged branches fired *)
Lemma loss_only_by_events : forall md S,
  inl_spec S = true ->
  let s := parse_doc md S in
  oof s = false -> all_present S s = true ->
  forall n, In n (map fst S) -> ~ faithful S s n -> events s <> [].
Proof.
  intros md S HS s Ho Hp n Hn Hnf He. apply Hnf. apply (C02_core md S HS He Ho Hp n Hn).
Qed.

(* ================================================================== static part: acyclic documents run clean ========
   A second induction over the fuel, about the tracker only: with a rank witness for acyclicity every named entry
   finds its name NOT_STARTED/IN_PROGRESS, not on the stack (all stack entries have larger rank) and within the depth
   limit (potential 4*rank+slack), every early-return branch is dead, enter/exit are balanced, and the fuel
   max_depth+50 suffices.  Registry facts are taken from [rec_ok] above. *)
Section Static.
  Variable md : N.
  Variable S : spec.
  Variable rkl : list (str * nat).
  Notation rk := (rank_of rkl).
  Hypothesis HS : core_spec S = true.
  Hypothesis HR : ranked_b rkl S = true.
  Hypothesis HD : depth_ok rkl S md = true.

  Definition refs_below (nd : node) (b : nat) : Prop :=
    forall m, In m (refs nd) -> (exists nd', alookup m S = Some nd') /\ (rk m < b)%nat.

  Lemma ranked : forall n nd, alookup n S = Some nd -> refs_below nd (rk n).
  Proof.
    intros n nd Hl m Hm. apply alookup_In in Hl. unfold ranked_b in HR. rewrite forallb_forall in HR.
    specialize (HR _ Hl). simpl in HR. rewrite forallb_forall in HR. specialize (HR _ Hm).
    apply andb_true_iff in HR. destruct HR as [A B]. split.
    - destruct (alookup m S); [eexists; reflexivity | discriminate].
    - apply Nat.ltb_lt in B. exact B.
  Qed.

  Lemma depth_named : forall n nd, alookup n S = Some nd -> (4 * N.of_nat (rk n) + 4 <= md)%N.
  Proof.
    intros n nd Hl. apply alookup_In in Hl. unfold depth_ok in HD. rewrite forallb_forall in HD.
    specialize (HD _ Hl). simpl in HD. apply N.leb_le in HD. exact HD.
  Qed.

  Lemma HSI : inl_spec S = true.
  Proof.
    apply core_inl; [exact HS|]. intros n nd Hin m Hm.
    unfold ranked_b in HR. rewrite forallb_forall in HR. specialize (HR _ Hin). simpl in HR.
    rewrite forallb_forall in HR. specialize (HR _ Hm). apply andb_true_iff in HR. destruct HR as [A _].
    destruct (alookup m S) as [v|] eqn:E; [|discriminate]. apply alookup_In in E. apply (in_map fst) in E. exact E.
  Qed.

  Lemma spec_facts_core : forall n nd, alookup n S = Some nd ->
    core_top nd = true /\ cls n = n /\ nonempty n = true
    /\ (forall k, In k (prop_keys nd) -> ~ In k (map fst (nt S))).
  Proof.
    intros n nd H. apply alookup_In in H. pose proof HS as H0. unfold core_spec in H0.
    apply andb_true_iff in H0. destruct H0 as [HA _].
    rewrite forallb_forall in HA. specialize (HA _ H). simpl in HA.
    repeat (apply andb_true_iff in HA; destruct HA as [HA ?]).
    repeat split; auto.
    - apply str_eqb_eq; assumption.
    - intros k Hk Hin. rewrite (core_nt S HS) in Hin. rewrite forallb_forall in H0. specialize (H0 _ Hk).
      apply negb_true_iff in H0. apply mem_str_In in Hin. congruence.
  Qed.

  Definition TI (s : st) : Prop :=
    (forall m, state_of s m = Completed -> registered m s = true)
    /\ (forall m, match state_of s m with PhCycle | PhDepth | PhSelf => False | _ => True end).

  Definition stack_above (s : st) (b : nat) : Prop := forall x, In x (stack s) -> (b <= rk x)%nat.

  Definition pre (s : st) (b : nat) (d : N) : Prop :=
    events s = [] /\ oof s = false /\ TI s /\ Inv S s /\ stack_above s b /\ (depth s + d <= md)%N.

  Definition post (s s' : st) (b : nat) (self : option str) : Prop :=
    events s' = [] /\ oof s' = false /\ TI s' /\ Inv S s' /\ stack s' = stack s /\ depth s' = depth s
    /\ (forall k, registered k s = true -> registered k s' = true)
    /\ (forall k, registered k s' = true -> registered k s = true \/ (rk k < b)%nat \/ self = Some k).

  Definition slack (name : option str) (nd : node) : N :=
    match name, nd with
    | Some _, _ => 4
    | None, Obj _ _ => 3
    | None, Arr _ => 2
    | None, _ => 1
    end.

  Definition keys_ok (nd : node) : Prop := forall k, In k (prop_keys nd) -> ~ In k (map fst (nt S)).

  (* F = fuel available to the callee *)
  Definition tr_ok (F : N) (rec : option str -> node -> st -> ir * st) : Prop :=
    forall name nd s b r s', rec name nd s = (r, s') ->
      (4 * N.of_nat b + slack name nd <= F)%N ->
      pre s b (4 * N.of_nat b + slack name nd) -> refs_below nd b ->
      match name with
      | Some n => alookup n S = Some nd /\ rk n = b /\ registered n s = false /\ ~ In n (stack s)
      | None => core_anon nd = true /\ keys_ok nd
      end ->
      post s s' b name.

  Ltac mkpost := unfold post; repeat (split; [first [assumption | reflexivity | congruence]|]).

  Lemma post_refl : forall s b, pre s b 0 -> post s s b None.
  Proof. intros s b (A & O & B & C & D & E). mkpost. auto. Qed.

  Lemma pre_weaken : forall s b d d', (d' <= d)%N -> pre s b d -> pre s b d'.
  Proof. intros s b d d' Hd (A & O & B & C & D & E). unfold pre. repeat (split; [assumption|]). lia. Qed.

  Lemma post_trans : forall s s1 s2 b, post s s1 b None -> post s1 s2 b None -> post s s2 b None.
  Proof.
    intros s s1 s2 b (A1 & O1 & B1 & C1 & D1 & E1 & F1 & G1) (A2 & O2 & B2 & C2 & D2 & E2 & F2 & G2). mkpost.
    try (split; [solve [auto]|]). intros k Hk. destruct (G2 k Hk) as [H|[H|H]]; [|auto|discriminate].
    destruct (G1 k H) as [H'|[H'|H']]; [auto|auto|discriminate].
  Qed.

  Lemma post_pre : forall s s' b self d, post s s' b self -> pre s b d -> pre s' b d.
  Proof.
    intros s s' b self d (A & O & B & C & D & E & _) (_ & _ & _ & _ & P4 & P5). unfold pre, stack_above in *.
    rewrite D, E. auto 10.
  Qed.

  Section WithRec.
    Variable F : N.
    Variable rec : option str -> node -> st -> ir * st.
    Hypothesis Hrec : rec_ok S rec.
    Hypothesis Hm : mono rec.
    Hypothesis Htr : tr_ok F rec.

    Lemma resolve_tr : forall m s b r s',
      resolve_ref S rec m s = (r, s') -> (4 * N.of_nat b <= F)%N ->
      pre s b (4 * N.of_nat b) -> (exists nd', alookup m S = Some nd') -> (rk m < b)%nat ->
      post s s' b None.
    Proof.
      intros m s b r s' H HF P [nd' Hl] Hlt. unfold resolve_ref in H.
      destruct P as (A & O & B & C & D & E).
      destruct (alookup m (parsed s)) as [e|] eqn:El.
      - pose proof (alookup_In _ _ _ El) as Hin. apply C in Hin. destruct Hin as [(? & _ & _ & (_ & _ & Dm & _) & _) _].
        rewrite Dm in H. inversion H; subst. apply post_refl. unfold pre. repeat (split; [assumption|]). lia.
      - rewrite Hl in H.
        assert (P' : pre s (rk m) (4 * N.of_nat (rk m) + slack (Some m) nd')).
        { unfold pre. repeat (split; [assumption|]). split.
          - intros x Hx. specialize (D x Hx). lia.
          - unfold slack. lia. }
        assert (Side : alookup m S = Some nd' /\ rk m = rk m /\ registered m s = false /\ ~ In m (stack s)).
        { repeat split; auto.
          - unfold registered. rewrite El. reflexivity.
          - intro Hx. specialize (D m Hx). lia. }
        assert (HF' : (4 * N.of_nat (rk m) + slack (Some m) nd' <= F)%N) by (unfold slack; lia).
        pose proof (Htr (Some m) nd' s (rk m) r s' H HF' P' (ranked m nd' Hl) Side) as (A1 & O1 & B1 & C1 & D1 & E1 & F1 & G1).
        mkpost. try (split; [assumption|]).
        intros k Hk. destruct (G1 k Hk) as [Hh|[Hh|Hh]]; [auto| right; left; lia |].
        inversion Hh; subst. right; left; exact Hlt.
    Qed.

    Lemma items_tr : forall name y s b r s', core_item y = true ->
      parse_items rec name y s = (r, s') -> (4 * N.of_nat b + 1 <= F)%N ->
      pre s b (4 * N.of_nat b + 1) -> refs_below y b -> post s s' b None.
    Proof.
      intros name y s b r s' Hc H HF P Hr. unfold parse_items in H.
      assert (N0 : item_name name y s = None) by (unfold item_name; destruct y; try discriminate; reflexivity).
      rewrite N0 in H. destruct (rec None y s) as [a s1] eqn:E.
      assert (T : type_object y = false) by (destruct y; try discriminate; reflexivity).
      rewrite T in H. simpl in H. inversion H; subst.
      assert (SL : slack None y = 1%N) by (destruct y; try discriminate; reflexivity).
      apply (Htr None y s b r s' E); rewrite ?SL; auto.
      split.
      - unfold core_anon. rewrite Hc, orb_true_r. reflexivity.
      - destruct y; try discriminate; intros k0 [].
    Qed.

    Lemma post_same_tracker : forall s s1 b, post s s1 b None -> post s (w_parsed (parsed s1) s1) b None.
    Proof. intros s s1 b H. exact H. Qed.

    Lemma props_tr : forall ps parent acc s b out s',
      forallb (fun kv => core_prop (snd kv)) ps = true ->
      (forall k, In k (map fst ps) -> ~ In k (map fst (nt S))) ->
      (forall kv, In kv ps -> refs_below (snd kv) b) ->
      parse_props S rec ps parent acc s = (out, s') -> (4 * N.of_nat b + 2 <= F)%N ->
      pre s b (4 * N.of_nat b + 2) -> post s s' b None.
    Proof.
      induction ps as [|[key pn] ps IH]; intros parent acc s b out s' Hc Hk Hr H HF P.
      - simpl in H. inversion H; subst. apply post_refl. eapply pre_weaken; [|exact P]. lia.
      - simpl in Hc. apply andb_true_iff in Hc. destruct Hc as [Hc1 Hc2].
        assert (Hk2 : forall k, In k (map fst ps) -> ~ In k (map fst (nt S))) by (intros k Hin; apply Hk; right; exact Hin).
        assert (Hr2 : forall kv, In kv ps -> refs_below (snd kv) b) by (intros kv Hin; apply Hr; right; exact Hin).
        assert (Hr1 : refs_below pn b) by (apply (Hr (key, pn)); left; reflexivity).
        simpl in H.
        destruct (alookup key acc) as [v0|] eqn:Ea; [eapply IH; eauto|].
        destruct pn; try discriminate.
        + (* Ref *)
          destruct (resolve_ref S rec n s) as [v s1] eqn:Er.
          assert (P0 : pre s b (4 * N.of_nat b)) by (eapply pre_weaken; [|exact P]; lia).
          destruct (Hr1 n (or_introl eq_refl)) as [Hex Hlt].
          assert (HF0 : (4 * N.of_nat b <= F)%N) by lia.
          pose proof (resolve_tr _ _ _ _ _ Er HF0 P0 Hex Hlt) as Q1.
          eapply post_trans; [exact Q1|]. eapply IH; eauto. eapply post_pre; eauto.
        + (* Arr *)
          simpl in Hc1.
          assert (SA : is_simple_array (Arr pn) = true) by (simpl; destruct pn; try discriminate; reflexivity).
          change (is_simple_primitive (Arr pn)) with false in H. rewrite SA in H. simpl orb in H. cbv iota in H.
          destruct (rec None (Arr pn) s) as [pr s1] eqn:Er. cbn [negb andb] in H.
          assert (CA : core_anon (Arr pn) = true) by (unfold core_anon; simpl; rewrite Hc1; reflexivity).
          assert (NK : keys_ok (Arr pn)) by (intros k0 []).
          assert (HF1 : (4 * N.of_nat b + slack None (Arr pn) <= F)%N) by (unfold slack; lia).
          pose proof (Htr None (Arr pn) s b pr s1 Er HF1 P Hr1 (conj CA NK)) as Q1.
          destruct Q1 as (A1 & O1 & Q1').
          destruct P as (A & O & B & C & D & E).
          pose proof (Hrec None (Arr pn) s pr s1 Er A1 O1 C CA NK) as (I1 & (id & it & -> & Hit & Hold)).
          simpl i_id in H. rewrite (update_id_older _ _ _ Hold) in H.
          assert (Q1 : post s (w_parsed (parsed s1) s1) b None) by (apply post_same_tracker; unfold post; auto).
          eapply post_trans; [exact Q1|]. eapply IH; eauto. eapply post_pre; [exact Q1|].
          unfold pre. auto 10.
        + (* Prim *)
          change (is_simple_primitive (Prim k)) with true in H. simpl orb in H. cbv iota in H.
          destruct (rec None (Prim k) s) as [pr s1] eqn:Er. cbn [negb andb] in H.
          assert (CA : core_anon (Prim k) = true) by reflexivity.
          assert (NK : keys_ok (Prim k)) by (intros k0 []).
          assert (HF1 : (4 * N.of_nat b + slack None (Prim k) <= F)%N) by (unfold slack; lia).
          assert (P1 : pre s b (4 * N.of_nat b + slack None (Prim k))) by (eapply pre_weaken; [|exact P]; unfold slack; lia).
          pose proof (Htr None (Prim k) s b pr s1 Er HF1 P1 Hr1 (conj CA NK)) as Q1.
          destruct Q1 as (A1 & O1 & Q1').
          destruct P as (A & O & B & C & D & E).
          pose proof (Hrec None (Prim k) s pr s1 Er A1 O1 C CA NK) as (I1 & (id & -> & Hold & _)).
          simpl i_id in H. rewrite (update_id_older _ _ _ Hold) in H.
          assert (Q1 : post s (w_parsed (parsed s1) s1) b None) by (apply post_same_tracker; unfold post; auto).
          eapply post_trans; [exact Q1|]. eapply IH; eauto. eapply post_pre; [exact Q1|].
          unfold pre. auto 10.
    Qed.

    Lemma list_tr : forall l s b ms s',
      forallb core_member l = true ->
      (forall x, In x l -> keys_ok x) -> (forall x, In x l -> refs_below x b) ->
      parse_list rec l s = (ms, s') -> (4 * N.of_nat b + 3 <= F)%N ->
      pre s b (4 * N.of_nat b + 3) -> post s s' b None.
    Proof.
      induction l as [|x l IH]; intros s b ms s' Hc Hk Hr H HF P; simpl in H.
      - inversion H; subst. apply post_refl. eapply pre_weaken; [|exact P]. lia.
      - simpl in Hc. apply andb_true_iff in Hc. destruct Hc as [Hc1 Hc2].
        destruct (rec None x s) as [i s1] eqn:E1. destruct (parse_list rec l s1) as [is_ s2] eqn:E2.
        inversion H; subst.
        assert (CA : core_anon x = true).
        { unfold core_anon, core_member in *. destruct x; try discriminate; simpl in *; try reflexivity.
          rewrite ?orb_false_r in Hc1. exact Hc1. }
        assert (SL : (slack None x <= 3)%N) by (destruct x; unfold slack; lia).
        assert (HF1 : (4 * N.of_nat b + slack None x <= F)%N) by lia.
        assert (P1 : pre s b (4 * N.of_nat b + slack None x)) by (eapply pre_weaken; [|exact P]; lia).
        pose proof (Htr None x s b i s1 E1 HF1 P1 (Hr x (or_introl eq_refl)) (conj CA (Hk x (or_introl eq_refl)))) as Q1.
        eapply post_trans; [exact Q1|].
        eapply IH; eauto.
        + intros y Hy. apply Hk. right. exact Hy.
        + intros y Hy. apply Hr. right. exact Hy.
        + eapply post_pre; eauto.
    Qed.

    Lemma registered_reg : forall k n x t,
      registered k (reg n x t) = true <-> (k = n \/ registered k t = true).
    Proof.
      intros k n x t. unfold registered, reg. simpl.
      destruct (str_eqb k n) eqn:E.
      - apply str_eqb_eq in E. subst. rewrite alookup_aset_same. split; auto.
      - apply str_eqb_neq in E. rewrite (alookup_aset_other _ _ _ _ E). split; [auto|]. intros [H|H]; [contradiction|exact H].
    Qed.

    Lemma finish_eval : forall n nd x t,
      alookup n S = Some nd -> registered n t = false -> cycles t = [] ->
      finish S (Some n) x t = (x, reg n x t).
    Proof.
      intros n nd x t Hl Hr Hc. destruct (spec_facts S HSI _ _ Hl) as (_ & Hcls & Hne & _).
      unfold finish. rewrite Hne. simpl negb. cbv iota.
      unfold registered in Hr. destruct (alookup n (parsed t)) eqn:E; [discriminate|].
      unfold registered. rewrite Hcls, E, Hl. rewrite andb_false_r.
      assert (C : cycles (reg n x t) = []) by exact Hc. rewrite C. reflexivity.
    Qed.

    Lemma TI_reg : forall n x t, TI t -> TI (reg n x t).
    Proof.
      intros n x t [T1 T2]. split; [|exact T2]. intros m Hcm. apply registered_reg. right. apply T1. exact Hcm.
    Qed.

    Lemma TI_bump : forall t, TI t -> TI (bump t).
    Proof. intros t H. exact H. Qed.

    Lemma post_bump : forall s t b, post s t b None -> post s (bump t) b None.
    Proof.
      intros s t b (A & O & B & C & D & E & G & H). mkpost. split; [apply Inv_bump; exact C|]. mkpost. auto.
    Qed.

    Lemma pre_bump : forall t b d, pre t b d -> pre (bump t) b d.
    Proof. intros t b d (A & O & B & C & D & E). unfold pre. repeat (split; [first [assumption | apply Inv_bump; assumption]|]). exact E. Qed.

    (* the body of _parse_schema between enter and exit, one frame deeper *)
    Lemma body_tr : forall name nd s b r s',
      parse_body S rec name nd s = (r, s') ->
      (4 * N.of_nat b + slack name nd <= F + 1)%N ->
      pre s b (4 * N.of_nat b + slack name nd - 1) -> refs_below nd b ->
      match name with
      | Some n => alookup n S = Some nd /\ rk n = b /\ registered n s = false
      | None => core_anon nd = true /\ keys_ok nd
      end ->
      post s s' b name /\ match name with Some n => registered n s' = true | None => True end.
    Proof.
      intros name nd s b r s' H HF P Hr Side.
      assert (Core : events s' = [] /\ oof s' = false /\ TI s' /\ stack s' = stack s /\ depth s' = depth s
                     /\ (forall k, registered k s = true -> registered k s' = true)
                     /\ (forall k, registered k s' = true -> registered k s = true \/ (rk k < b)%nat \/ name = Some k)
                     /\ match name with Some n => registered n s' = true | None => True end).
      { destruct name as [n|].
        - destruct Side as (Hl & Hrk & Hnr).
          destruct (spec_facts_core _ _ Hl) as (Hc & Hcls & Hne & Hk).
          assert (Fin : forall x t, post s t b None -> finish S (Some n) x t = (r, s') ->
                    events s' = [] /\ oof s' = false /\ TI s' /\ stack s' = stack s /\ depth s' = depth s
                    /\ (forall k, registered k s = true -> registered k s' = true)
                    /\ (forall k, registered k s' = true -> registered k s = true \/ (rk k < b)%nat \/ Some n = Some k)
                    /\ registered n s' = true).
          { intros x t (A & O & B & C & D & E & G & K) Hf.
            assert (Hnt : registered n t = false).
            { destruct (registered n t) eqn:Ert; [|reflexivity]. destruct (K n Ert) as [X|[X|X]]; [congruence|lia|discriminate]. }
            rewrite (finish_eval n nd x t Hl Hnt (proj2 C)) in Hf. inversion Hf; subst.
            repeat (split; [first [assumption | apply TI_reg; assumption]|]).
            split; [intros k Hk0; apply registered_reg; right; auto|].
            split; [|apply registered_reg; left; reflexivity].
            intros k Hk0. apply registered_reg in Hk0. destruct Hk0 as [->|Hk0]; [right; right; reflexivity|].
            destruct (K k Hk0) as [X|[X|X]]; [auto|auto|discriminate]. }
          destruct nd; try discriminate; cbn -[finish parse_props parse_items parse_list] in H; rewrite Hne, Hcls in H.
          + (* Obj *)
            destruct (parse_props S rec ps (Some n) [] s) as [props s1] eqn:E.
            unfold slack in HF, P.
            assert (Q : post s s1 b None).
            { eapply props_tr; [exact Hc | exact Hk | | exact E | lia | eapply pre_weaken; [|exact P]; lia].
              intros kv Hin m Hmm. apply Hr. simpl. clear - Hin Hmm.
              induction ps as [|[k0 x0] ps IH]; [contradiction|]. apply in_or_app.
              destruct Hin as [<-|Hin]; [left; exact Hmm | right; apply IH, Hin]. }
            eapply Fin; [apply post_bump; exact Q | exact H].
          + (* Arr *)
            simpl in Hc.
            destruct (parse_items rec (Some n) nd s) as [it s1] eqn:E1.
            destruct (parse_items rec (Some n) nd (bump s1)) as [it2 s2] eqn:E2.
            unfold slack in HF, P.
            assert (Q1 : post s s1 b None).
            { eapply items_tr; [exact Hc | exact E1 | lia | eapply pre_weaken; [|exact P]; lia | exact Hr]. }
            assert (Q2 : post (bump s1) s2 b None).
            { eapply items_tr; [exact Hc | exact E2 | lia | | exact Hr].
              apply pre_bump. eapply post_pre; [exact Q1|]. eapply pre_weaken; [|exact P]. lia. }
            eapply Fin; [|exact H]. eapply post_trans; [apply post_bump; exact Q1 | exact Q2].
          + (* OneOf *)
            simpl in Hc.
            destruct (parse_list rec l s) as [ms s1] eqn:E.
            unfold slack in HF, P.
            assert (Q : post s s1 b None).
            { eapply list_tr; [exact (core_items_members _ Hc) | | | exact E | lia | eapply pre_weaken; [|exact P]; lia].
              - intros x Hx k Hkx. exfalso. exact (core_items_nokeys _ Hc x k Hx Hkx).
              - intros x Hx m Hmm. apply Hr. clear - Hx Hmm. simpl.
                induction l as [|y l IH]; [contradiction|]. apply in_or_app.
                destruct Hx as [->|Hx]; [left; exact Hmm | right; apply IH, Hx]. }
            eapply Fin; [apply post_bump; exact Q | exact H].
          + (* AnyOf *)
            simpl in Hc.
            destruct (parse_list rec l s) as [ms s1] eqn:E.
            unfold slack in HF, P.
            assert (Q : post s s1 b None).
            { eapply list_tr; [exact (core_items_members _ Hc) | | | exact E | lia | eapply pre_weaken; [|exact P]; lia].
              - intros x Hx k Hkx. exfalso. exact (core_items_nokeys _ Hc x k Hx Hkx).
              - intros x Hx m Hmm. apply Hr. clear - Hx Hmm. simpl.
                induction l as [|y l IH]; [contradiction|]. apply in_or_app.
                destruct Hx as [->|Hx]; [left; exact Hmm | right; apply IH, Hx]. }
            eapply Fin; [apply post_bump; exact Q | exact H].
          + (* AllOf *)
            simpl in Hc.
            destruct (parse_list rec l s) as [ms s1] eqn:E.
            unfold slack in HF, P.
            assert (Q : post s s1 b None).
            { eapply list_tr; [exact Hc | | | exact E | lia | eapply pre_weaken; [|exact P]; lia].
              - intros x Hx k Hkx. apply Hk. clear - Hx Hkx. simpl.
                induction l as [|y l IH]; [contradiction|]. apply in_or_app.
                destruct Hx as [->|Hx]; [left; exact Hkx | right; apply IH, Hx].
              - intros x Hx m Hmm. apply Hr. clear - Hx Hmm. simpl.
                induction l as [|y l IH]; [contradiction|]. apply in_or_app.
                destruct Hx as [->|Hx]; [left; exact Hmm | right; apply IH, Hx]. }
            eapply Fin; [apply post_bump; exact Q | exact H].
          + (* Prim *)
            eapply Fin; [|exact H]. apply post_bump, post_refl. eapply pre_weaken; [|exact P]. lia.
          + (* EnumN *)
            eapply Fin; [|exact H]. apply post_bump, post_refl. eapply pre_weaken; [|exact P]. lia.
          + (* MapN *)
            simpl in Hc.
            destruct (rec None nd s) as [ap s1] eqn:E.
            unfold slack in HF, P.
            assert (SL : slack None nd = 1%N) by (destruct nd; try discriminate; reflexivity).
            assert (Q : post s s1 b None).
            { apply (Htr None nd s b ap s1 E); rewrite ?SL.
              - lia.
              - eapply pre_weaken; [|exact P]. lia.
              - intros m Hmm. apply Hr. exact Hmm.
              - split; [unfold core_anon; rewrite Hc, orb_true_r; reflexivity | destruct nd; try discriminate; intros k0 []]. }
            eapply Fin; [apply post_bump; exact Q | exact H].
        - destruct Side as (Hc & Hk).
          assert (Out : forall t, post s t b None -> s' = t ->
                    events s' = [] /\ oof s' = false /\ TI s' /\ stack s' = stack s /\ depth s' = depth s
                    /\ (forall k, registered k s = true -> registered k s' = true)
                    /\ (forall k, registered k s' = true -> registered k s = true \/ (rk k < b)%nat \/ None = Some k)
                    /\ True).
          { intros t (A & O & B & C & D & E & G & K) ->. auto 10. }
          destruct nd; try discriminate; cbn -[finish parse_props parse_items parse_list] in H; unfold slack in HF, P.
          + (* Ref *)
            destruct (resolve_ref S rec n s) as [r0 s1] eqn:E. inversion H; subst.
            destruct (Hr n (or_introl eq_refl)) as [Hex Hlt].
            eapply Out; [|reflexivity]. eapply resolve_tr; [exact E | lia | eapply pre_weaken; [|exact P]; lia | exact Hex | exact Hlt].
          + (* Obj *)
            destruct (parse_props S rec ps None [] s) as [props s1] eqn:E. simpl in H. inversion H; subst.
            unfold core_anon in Hc. simpl in Hc.
            eapply Out; [|reflexivity]. apply post_bump.
            eapply props_tr; [exact Hc | exact Hk | | exact E | lia | eapply pre_weaken; [|exact P]; lia].
            intros kv Hin m Hmm. apply Hr. simpl. clear - Hin Hmm.
            induction ps as [|[k0 x0] ps IH]; [contradiction|]. apply in_or_app.
            destruct Hin as [<-|Hin]; [left; exact Hmm | right; apply IH, Hin].
          + (* Arr *)
            unfold core_anon in Hc. simpl in Hc. rewrite !orb_false_r in Hc.
            destruct (parse_items rec None nd s) as [it s1] eqn:E1.
            destruct (parse_items rec None nd (bump s1)) as [it2 s2] eqn:E2.
            simpl in H. inversion H; subst.
            assert (Q1 : post s s1 b None).
            { eapply items_tr; [exact Hc | exact E1 | lia | eapply pre_weaken; [|exact P]; lia | exact Hr]. }
            eapply Out; [|reflexivity]. eapply post_trans; [apply post_bump; exact Q1|].
            eapply items_tr; [exact Hc | exact E2 | lia | | exact Hr].
            apply pre_bump. eapply post_pre; [exact Q1|]. eapply pre_weaken; [|exact P]. lia.
          + (* Prim *)
            simpl in H. inversion H; subst. eapply Out; [|reflexivity].
            apply post_bump, post_refl. eapply pre_weaken; [|exact P]. lia.
          + (* EnumN *)
            simpl in H. inversion H; subst. eapply Out; [|reflexivity].
            apply post_bump, post_refl. eapply pre_weaken; [|exact P]. lia. }
      destruct Core as (A & O & B & D & E & G & K & R).
      destruct P as (A0 & O0 & B0 & C0 & D0 & E0).
      assert (I' : Inv S s').
      { destruct name as [n|].
        - destruct Side as (Hl & _). eapply (body_named S HSI rec Hrec Hm); eauto using nt_declared.
        - destruct Side as (Hc & Hk). eapply (body_anon S rec Hrec Hm); eauto. }
      split; [|exact R]. unfold post. auto 10.
    Qed.

    Lemma state_of_set_same : forall t n x, state_of (set_state n x t) n = x.
    Proof. intros. unfold state_of, set_state. simpl. rewrite alookup_aset_same. reflexivity. Qed.
    Lemma state_of_set_other : forall t n x m, m <> n -> state_of (set_state n x t) m = state_of t m.
    Proof. intros. unfold state_of, set_state. simpl. rewrite alookup_aset_other; auto. Qed.

    Lemma remove_first_app : forall n l, ~ In n l -> remove_first n (l ++ [n]) = l.
    Proof.
      induction l as [|x l IH]; intros Hn; simpl.
      - rewrite str_eqb_refl. reflexivity.
      - destruct (str_eqb x n) eqn:E.
        + apply str_eqb_eq in E. subst. exfalso. apply Hn. left. reflexivity.
        + f_equal. apply IH. intro Hin. apply Hn. right. exact Hin.
    Qed.
    Lemma mem_str_last : forall n l, mem_str n (l ++ [n]) = true.
    Proof. intros. apply mem_str_In. apply in_or_app. right. left. reflexivity. Qed.

    Lemma exit_state : forall name t m,
      state_of (exit_schema name t) m = state_of t m
      \/ (name = Some m /\ state_of t m = InProgress /\ state_of (exit_schema name t) m = Completed).
    Proof.
      intros name t m. unfold exit_schema.
      set (t1 := if (0 <? depth t)%N then w_depth (depth t - 1) t else t).
      assert (S1 : forall x, state_of t1 x = state_of t x) by (intros x; unfold t1; destruct (0 <? depth t)%N; reflexivity).
      destruct name as [n|]; [|left; apply S1]. destruct (nonempty n); [|left; apply S1].
      set (t2 := if mem_str n (stack t1) then w_stack (remove_first n (stack t1)) t1 else t1).
      assert (S2 : forall x, state_of t2 x = state_of t x) by (intros x; unfold t2; destruct (mem_str n (stack t1)); apply S1).
      destruct (state_of t2 n) eqn:Es; try (left; apply S2).
      destruct (str_eq_dec m n) as [->|Hmn].
      - right. rewrite state_of_set_same. rewrite <- S2. auto.
      - left. rewrite state_of_set_other by exact Hmn. apply S2.
    Qed.

    Lemma step_tr : tr_ok (F + 1) (step md S rec).
    Proof.
      intros name nd s b r s' H HF P Hr Side. unfold step in H.
      destruct P as (A & O & B & C & D & E).
      assert (SL : (1 <= slack name nd)%N) by (unfold slack; destruct name; [lia | destruct nd; lia]).
      destruct name as [n|].
      - destruct Side as (Hl & Hrk & Hnr & Hns).
        destruct (spec_facts S HSI _ _ Hl) as (_ & _ & Hne & _).
        set (s1 := w_stack (stack s ++ [n]) (set_state n InProgress (w_depth (depth s + 1) s))).
        assert (En : enter md (Some n) s = (AContinue, None, s1)).
        { unfold enter, cycle_check.
          assert (St : state_of (w_depth (depth s + 1) s) n = state_of s n) by reflexivity. rewrite St.
          destruct B as [T1 T2]. specialize (T1 n). specialize (T2 n).
          assert (Dp : (md <? depth (w_depth (depth s + 1) s))%N = false).
          { apply N.ltb_ge. simpl. unfold slack in E. lia. }
          assert (Ms : mem_str n (stack (w_depth (depth s + 1) s)) = false).
          { simpl. destruct (mem_str n (stack s)) eqn:M; [|reflexivity]. apply mem_str_In in M. contradiction. }
          destruct (state_of s n); try contradiction; try (rewrite T1 in Hnr; [discriminate | reflexivity]);
            rewrite Dp, Ms; simpl; rewrite Hne; reflexivity. }
        rewrite En in H.
        destruct (parse_body S rec (Some n) nd s1) as [r0 s2] eqn:Eb.
        assert (Hs' : s' = exit_schema (Some n) s2) by (pose proof (f_equal snd H) as X; cbn [snd] in X; symmetry; exact X).
        subst s'. clear H.
        assert (P1 : pre s1 b (4 * N.of_nat b + slack (Some n) nd - 1)).
        { unfold pre. split; [exact A|]. split; [exact O|]. split.
          { destruct B as [T1 T2]. split.
            - intros m Hcm. destruct (str_eq_dec m n) as [->|Hne'].
              + unfold s1 in Hcm. change (state_of (set_state n InProgress (w_depth (depth s + 1) s)) n = Completed) in Hcm.
                rewrite state_of_set_same in Hcm. discriminate.
              + change (state_of (set_state n InProgress (w_depth (depth s + 1) s)) m = Completed) in Hcm.
                rewrite state_of_set_other in Hcm by exact Hne'. apply (T1 m Hcm).
            - intros m. destruct (str_eq_dec m n) as [->|Hne'].
              + change (match state_of (set_state n InProgress (w_depth (depth s + 1) s)) n with
                        | PhCycle | PhDepth | PhSelf => False | _ => True end).
                rewrite state_of_set_same. exact I.
              + change (match state_of (set_state n InProgress (w_depth (depth s + 1) s)) m with
                        | PhCycle | PhDepth | PhSelf => False | _ => True end).
                rewrite state_of_set_other by exact Hne'. apply T2. }
          split; [apply (Inv_tracker S s); auto|]. split.
          - intros x Hx. simpl in Hx. apply in_app_or in Hx. destruct Hx as [Hx|[<-|[]]]; [apply D, Hx | lia].
          - change (depth s1) with (depth s + 1)%N. unfold slack in *. lia. }
        destruct (body_tr (Some n) nd s1 b r0 s2 Eb HF P1 Hr (conj Hl (conj Hrk Hnr))) as (Q & Rn).
        destruct Q as (A2 & O2 & B2 & C2 & D2 & E2 & G2 & K2).
        destruct (exit_shape (Some n) s2) as (Pp & Np & Cp & Ep & Op).
        assert (Dx : depth (exit_schema (Some n) s2) = depth s).
        { unfold exit_schema. rewrite E2. simpl depth.
          assert ((0 <? depth s + 1)%N = true) by (apply N.ltb_lt; lia). rewrite H.
          rewrite Hne. simpl. destruct (mem_str n _); [|]; simpl;
            match goal with |- context [state_of ?t n] => destruct (state_of t n) end; simpl; lia. }
        assert (Sx : stack (exit_schema (Some n) s2) = stack s).
        { unfold exit_schema. destruct (0 <? depth s2)%N; rewrite Hne; simpl; rewrite D2; simpl;
            rewrite mem_str_last; simpl;
            match goal with |- context [state_of ?t n] => destruct (state_of t n) end; simpl;
            apply remove_first_app; exact Hns. }
        assert (Tx : TI (exit_schema (Some n) s2)).
        { destruct B2 as [T1 T2].
          assert (Reg : forall m, registered m (exit_schema (Some n) s2) = registered m s2).
          { intros m. unfold registered. rewrite Pp. reflexivity. }
          split.
          - intros m Hcm. rewrite Reg.
            destruct (exit_state (Some n) s2 m) as [Hs|(Hn' & _)]; [rewrite Hs in Hcm; apply T1, Hcm|].
            inversion Hn'; subst. exact Rn.
          - intros m. destruct (exit_state (Some n) s2 m) as [Hs|(_ & _ & Hs)]; rewrite Hs; [apply T2 | exact I]. }
        unfold post. rewrite Ep, Op. split; [exact A2|]. split; [exact O2|]. split; [exact Tx|].
        split; [apply (Inv_tracker S s2); auto|]. split; [exact Sx|]. split; [exact Dx|].
        assert (Reg : forall m, registered m (exit_schema (Some n) s2) = registered m s2) by (intros m; unfold registered; rewrite Pp; reflexivity).
        split; [intros k Hk0; rewrite Reg; apply G2; exact Hk0|].
        intros k Hk0. rewrite Reg in Hk0. apply K2 in Hk0. exact Hk0.
      - destruct Side as (Hc & Hk).
        set (s1 := w_depth (depth s + 1) s).
        change (enter md None s) with (AContinue, @None ir, s1) in H. cbv iota beta in H.
        destruct (parse_body S rec None nd s1) as [r0 s2] eqn:Eb.
        assert (Hs' : s' = exit_schema None s2) by (pose proof (f_equal snd H) as X; cbn [snd] in X; symmetry; exact X).
        subst s'. clear H.
        assert (P1 : pre s1 b (4 * N.of_nat b + slack None nd - 1)).
        { unfold pre. split; [exact A|]. split; [exact O|]. split; [exact B|].
          split; [apply (Inv_tracker S s); auto|]. split; [exact D|].
          change (depth s1) with (depth s + 1)%N. lia. }
        destruct (body_tr None nd s1 b r0 s2 Eb HF P1 Hr (conj Hc Hk)) as (Q & _).
        destruct Q as (A2 & O2 & B2 & C2 & D2 & E2 & G2 & K2).
        destruct (exit_shape None s2) as (Pp & Np & Cp & Ep & Op).
        assert (Reg : forall m, registered m (exit_schema None s2) = registered m s2) by (intros m; unfold registered; rewrite Pp; reflexivity).
        unfold post. rewrite Ep, Op. split; [exact A2|]. split; [exact O2|]. split.
        { destruct B2 as [T1 T2]. split.
          - intros m Hcm. rewrite Reg. destruct (exit_state None s2 m) as [Hs|(Hn' & _)]; [|discriminate].
            rewrite Hs in Hcm. apply T1, Hcm.
          - intros m. destruct (exit_state None s2 m) as [Hs|(Hn' & _)]; [|discriminate]. rewrite Hs. apply T2. }
        split; [apply (Inv_tracker S s2); auto|].
        split; [unfold exit_schema; destruct (0 <? depth s2)%N; exact D2|].
        split.
        { unfold exit_schema. rewrite E2. change (depth s1) with (depth s + 1)%N.
          assert (X : (0 <? depth s + 1)%N = true) by (apply N.ltb_lt; lia). rewrite X. simpl. lia. }
        split; [intros k Hk0; rewrite Reg; apply G2; exact Hk0|].
        intros k Hk0. rewrite Reg in Hk0. apply K2 in Hk0. exact Hk0.
    Qed.
  End WithRec.

  Lemma parse_schema_tr : forall f, tr_ok (N.of_nat f) (parse_schema md S f).
  Proof.
    induction f as [|f IH].
    - intros name nd s b r s' _ HF. exfalso. unfold slack in HF. destruct name; [lia | destruct nd; lia].
    - rewrite Nat2N.inj_succ, <- N.add_1_r. simpl parse_schema.
      apply step_tr; [apply parse_schema_ok; exact HSI | apply mono_parse_schema | exact IH].
  Qed.

  Definition rest (s : st) : Prop :=
    events s = [] /\ oof s = false /\ TI s /\ Inv S s /\ stack s = [] /\ depth s = 0%N.

  Lemma unparsed_clean : forall k s, Inv S s -> unparsed k s = negb (registered k s).
  Proof.
    intros k s [HI _]. unfold unparsed, registered. destruct (alookup k (parsed s)) as [e|] eqn:E; [|reflexivity].
    destruct (HI _ _ (alookup_In _ _ _ E)) as [(? & _ & _ & (_ & _ & Dm & _) & _) _]. rewrite Dm. reflexivity.
  Qed.

  Lemma build_pass_tr : forall l s,
    (forall n nd, In (n, nd) l -> alookup n S = Some nd) ->
    rest s ->
    rest (build_pass md S (fuel_for md) l s)
    /\ (forall k, registered k s = true -> registered k (build_pass md S (fuel_for md) l s) = true)
    /\ (forall n nd, In (n, nd) l -> registered n (build_pass md S (fuel_for md) l s) = true).
  Proof.
    induction l as [|[n nd] l IH]; intros s Hl R; simpl.
    - split; [exact R|]. split; [auto|]. intros n nd [].
    - assert (Hl' : forall n0 nd0, In (n0, nd0) l -> alookup n0 S = Some nd0) by (intros; apply Hl; right; assumption).
      pose proof (Hl n nd (or_introl eq_refl)) as Hn.
      destruct (spec_facts S HSI _ _ Hn) as (_ & Hcls & _).
      destruct R as (A & O & B & C & D & E0).
      rewrite Hcls, andb_diag, (unparsed_clean n s C).
      destruct (registered n s) eqn:Ern; simpl negb; cbv iota.
      + destruct (IH s Hl' (conj A (conj O (conj B (conj C (conj D E0)))))) as (R' & M & Al).
        split; [exact R'|]. split; [exact M|].
        intros n0 nd0 [Heq|Hin]; [inversion Heq; subst; apply M; exact Ern | eapply Al; exact Hin].
      + set (s0 := set_state n NotStarted s).
        destruct (parse_schema md S (fuel_for md) (Some n) nd s0) as [r s1] eqn:E. simpl.
        pose proof (depth_named n nd Hn) as Hd.
        assert (HF : (4 * N.of_nat (rk n) + slack (Some n) nd <= N.of_nat (fuel_for md))%N).
        { unfold slack, fuel_for. lia. }
        assert (B0 : TI s0).
        { destruct B as [T1 T2]. split; intros m; destruct (str_eq_dec m n) as [->|Hmn].
          - unfold s0. rewrite state_of_set_same. discriminate.
          - unfold s0. rewrite state_of_set_other by exact Hmn. apply T1.
          - unfold s0. rewrite state_of_set_same. exact I.
          - unfold s0. rewrite state_of_set_other by exact Hmn. apply T2. }
        assert (C0 : Inv S s0) by (apply (Inv_tracker S s); auto).
        assert (P : pre s0 (rk n) (4 * N.of_nat (rk n) + slack (Some n) nd)).
        { unfold pre. split; [exact A|]. split; [exact O|]. split; [exact B0|]. split; [exact C0|]. split.
          - intros x Hx. change (stack s0) with (stack s) in Hx. rewrite D in Hx. destruct Hx.
          - change (depth s0) with (depth s). rewrite E0. unfold slack. lia. }
        assert (Side : alookup n S = Some nd /\ rk n = rk n /\ registered n s0 = false /\ ~ In n (stack s0)).
        { repeat split; auto. change (stack s0) with (stack s). rewrite D. intros []. }
        pose proof (parse_schema_tr (fuel_for md) (Some n) nd s0 (rk n) r s1 E HF P (ranked n nd Hn) Side)
          as (A1 & O1 & B1 & C1 & D1 & E1 & G1 & K1).
        pose proof (parse_schema_ok md S HSI (fuel_for md) (Some n) nd s0 r s1 E A1 O1 C0 (nt_declared _ _ _ Hn)) as (_ & _ & Hreg).
        assert (R1 : rest s1).
        { unfold rest. split; [exact A1|]. split; [exact O1|]. split; [exact B1|]. split; [exact C1|].
          split; [rewrite D1; exact D | rewrite E1; exact E0]. }
        destruct (IH s1 Hl' R1) as (R' & M & Al). split; [exact R'|].
        split; [intros k Hk0; apply M, G1; exact Hk0|].
        intros n0 nd0 [Heq|Hin]; [|eapply Al; exact Hin]. inversion Heq; subst.
        apply M. unfold registered. rewrite Hreg. reflexivity.
  Qed.

  Lemma rest_st0 : rest st0.
  Proof.
    unfold rest. split; [reflexivity|]. split; [reflexivity|]. split.
    - split; intros m; [intro H; discriminate H | exact I].
    - split; [apply Inv_st0|]. split; reflexivity.
  Qed.

  Lemma filter_all : forall {A} (f : A -> bool) l, (forall x, In x l -> f x = true) -> filter f l = l.
  Proof.
    induction l as [|x l IH]; intros H; simpl; [reflexivity|].
    rewrite (H x (or_introl eq_refl)). f_equal. apply IH. intros y Hy. apply H. right. exact Hy.
  Qed.
  Lemma filter_none : forall {A} (f : A -> bool) l, (forall x, In x l -> f x = false) -> filter f l = [].
  Proof.
    induction l as [|x l IH]; intros H; simpl; [reflexivity|].
    rewrite (H x (or_introl eq_refl)). apply IH. intros y Hy. apply H. right. exact Hy.
  Qed.

  (* static: on acyclic core documents within the depth limit the run fires no loss-relevant branch at all,
     and build_schemas needs exactly one pass *)
  Theorem acyclic_clean :
    let s := parse_doc md S in
    events s = [] /\ oof s = false /\ all_present S s = true.
  Proof.
    assert (ND : nodup_strs (map fst S) = true) by (unfold core_spec in HS; apply andb_true_iff in HS; apply HS).
    unfold parse_doc, build. rewrite Nat.add_1_r. cbn [build_iter].
    destruct S as [|p0 l0] eqn:ES; [simpl; auto|]. rewrite <- ES in *.
    assert (NN : is_nil S || same_names None S = false) by (rewrite ES; reflexivity).
    rewrite NN.
    destruct (build_pass_tr S st0 (fun n nd Hin => nodup_alookup S n nd ND Hin) rest_st0) as (R1 & _ & Al).
    set (s1 := build_pass md S (fuel_for md) S st0) in *.
    assert (FN : filter (cutoff_b s1) S = []).
    { apply filter_none. intros [n nd] _. unfold cutoff_b, cut_off. simpl fst.
      destruct R1 as (_ & _ & _ & [C1 _] & _).
      assert (X : forall k, match alookup k (parsed s1) with Some e => i_depthm e | None => false end = false).
      { intros k. destruct (alookup k (parsed s1)) as [e|] eqn:E; [|reflexivity].
        destruct (C1 _ _ (alookup_In _ _ _ E)) as [(? & _ & _ & (_ & _ & Dm & _) & _) _]. exact Dm. }
      rewrite !X. reflexivity. }
    rewrite FN.
    assert (Stop : build_iter md S (length S) (fuel_for md) [] (Some S) s1 = s1).
    { rewrite ES. reflexivity. }
    rewrite Stop. destruct R1 as (A & O & _).
    split; [exact A|]. split; [exact O|].
    unfold all_present. apply forallb_forall. intros [n nd] Hin. simpl.
    rewrite (Al n nd Hin). reflexivity.
  Qed.

  Theorem C02_acyclic : forall n, In n (map fst S) -> faithful S (parse_doc md S) n.
  Proof.
    destruct acyclic_clean as (A & O & P). intros n Hn. apply (C02_core md S HSI A O P n Hn).
  Qed.

  Theorem C02_acyclic_kind : forall n nd, alookup n S = Some nd ->
    exists e, alookup n (parsed (parse_doc md S)) = Some e /\ kind_ok nd e.
  Proof.
    destruct acyclic_clean as (A & O & P). intros n nd Hl. apply (C02_core_kind md S HSI A O P n nd Hl).
  Qed.
End Static.


Definition rk_ok : list (str * nat) := [(sPet, 2%nat); (sAnimal, 1%nat); (sKind, O); (sTag, O)].
Example static_guard_nonvacuous :
  core_spec spec_ok = true /\ ranked_b rk_ok spec_ok = true /\ depth_ok rk_ok spec_ok default_max_depth = true.
Proof. vm_compute. repeat split. Qed.

(* the tightening idiom through two allOf levels: Base{ident!, label, owner}, StrictBase = allOf[$ref Base, {required:[label,owner]}],
   Leaf = allOf[$ref StrictBase, {note}]; a branch without properties is the node Obj [] req *)
Definition sBase : str := [66;97;115;101].
Definition sStrictBase : str := [83;116;114;105;99;116;66;97;115;101].
Definition sLeaf : str := [76;101;97;102].
Definition sAccount : str := [65;99;99;111;117;110;116].
Definition sowner : str := [111;119;110;101;114].
Definition snote : str := [110;111;116;101].
Definition sname : str := [110;97;109;101].
Definition spec_strict : spec :=
  [(sLeaf, AllOf [Ref sStrictBase; Obj [(snote, Prim PString)] []]);
   (sStrictBase, AllOf [Ref sBase; Obj [] [slabel; sowner]]);
   (sBase, Obj [(sident, Prim PInteger); (slabel, Prim PString); (sowner, Ref sAccount)] [sident]);
   (sAccount, Obj [(sname, Prim PString)] [])].
Definition rk_strict : list (str * nat) := [(sLeaf, 3%nat); (sStrictBase, 2%nat); (sBase, 1%nat); (sAccount, O)].
Example required_only_branch :
  (core_spec spec_strict = true /\ ranked_b rk_strict spec_strict = true /\ depth_ok rk_strict spec_strict default_max_depth = true)
  /\ model_fields (parse_doc default_max_depth spec_strict) sLeaf
     = Some [(sident, true, TPrim PInteger); (slabel, true, TPrim PString); (sowner, true, TRef sAccount); (snote, false, TPrim PString)]
  /\ declared spec_strict sLeaf = model_fields (parse_doc default_max_depth spec_strict) sLeaf.
Proof. vm_compute. repeat split. Qed.

(* regression for F02e (fixed by 635317b): a top-level pure alias, declared before or after its target and chained,
   is registered under its own name with exactly the target's declared fields *)
Definition sAlias : str := [65;108;105;97;115].
Definition sAliasTwo : str := [65;108;105;97;115;84;119;111].
Definition spec_alias : spec :=
  [(sAliasTwo, Ref sAlias); (sAlias, Ref sBase);
   (sBase, Obj [(sident, Prim PInteger); (slabel, Prim PString)] [sident])].
Example alias_regression :
  all_present spec_alias (parse_doc default_max_depth spec_alias) = true
  /\ events (parse_doc default_max_depth spec_alias) = []
  /\ faithful_b spec_alias (parse_doc default_max_depth spec_alias) sAlias = true
  /\ faithful_b spec_alias (parse_doc default_max_depth spec_alias) sAliasTwo = true
  /\ faithful_b (rev spec_alias) (parse_doc default_max_depth (rev spec_alias)) sAliasTwo = true
  /\ model_fields (parse_doc default_max_depth spec_alias) sAliasTwo
     = Some [(sident, true, TPrim PInteger); (slabel, false, TPrim PString)].
Proof. vm_compute. repeat split. Qed.

(* ================================================================== order independence (what C19 needs) ============ *)
Lemma perm_alookup : forall (S S' : spec),
  nodup_strs (map fst S) = true -> nodup_strs (map fst S') = true -> Permutation S S' ->
  forall n, alookup n S = alookup n S'.
Proof.
  intros S S' ND ND' P n.
  destruct (alookup n S) as [v|] eqn:E.
  - apply alookup_In in E. apply (Permutation_in _ P) in E.
    symmetry. apply nodup_alookup; assumption.
  - destruct (alookup n S') as [v'|] eqn:E'; [|reflexivity].
    apply alookup_In in E'. apply (Permutation_in _ (Permutation_sym P)) in E'.
    rewrite (nodup_alookup _ _ _ ND E') in E. discriminate.
Qed.

Lemma decl_members_ext : forall (r1 r2 : node -> option dmember),
  (forall x, r1 x = r2 x) -> forall l acc, decl_members r1 l acc = decl_members r2 l acc.
Proof.
  intros r1 r2 H. induction l as [|x l IH]; intros acc; simpl; [reflexivity|].
  rewrite H. destruct (r2 x); [apply IH | reflexivity].
Qed.

Lemma decl_node_ext : forall (S S' : spec), (forall n, alookup n S = alookup n S') ->
  forall f pn nd, decl_node f S pn nd = decl_node f S' pn nd.
Proof.
  intros S S' H. induction f as [|f IH]; intros pn nd; [reflexivity|].
  destruct nd; try reflexivity.
  - simpl. rewrite H. destruct (alookup n S'); [apply IH | reflexivity].
  - change (decl_members (decl_node f S None) l [] = decl_members (decl_node f S' None) l []).
    apply decl_members_ext. intros x. apply IH.
Qed.

Lemma declared_f_ext : forall (S S' : spec), (forall n, alookup n S = alookup n S') ->
  forall f n, declared_f f S n = declared_f f S' n.
Proof.
  intros S S' H f n. unfold declared_f. rewrite H. destruct (alookup n S'); [|reflexivity].
  rewrite (decl_node_ext S S' H). reflexivity.
Qed.

Lemma core_nodup : forall S, core_spec S = true -> nodup_strs (map fst S) = true.
Proof. intros S H. unfold core_spec in H. apply andb_true_iff in H. apply H. Qed.

(* on a clean run every registry key is a declared name *)
Lemma registry_keys_declared : forall md S,
  core_spec S = true -> inl_spec S = true ->
  events (parse_doc md S) = [] -> oof (parse_doc md S) = false ->
  forall n e, alookup n (parsed (parse_doc md S)) = Some e -> In n (map fst S).
Proof.
  intros md S HS HSI0 He Ho n e Hl.
  assert (HI : Inv S (parse_doc md S)).
  { unfold parse_doc. apply build_ok; [exact HSI0 | apply core_nodup; exact HS | apply Inv_st0 | exact He | exact Ho]. }
  destruct HI as [HI _]. destruct (HI _ _ (alookup_In _ _ _ Hl)) as [(nd & Hnd & _) _].
  rewrite (core_nt S HS) in Hnd. apply alookup_In in Hnd. apply (in_map fst) in Hnd. exact Hnd.
Qed.

(* the models do not depend on the order in which the schemas are declared *)
Theorem order_independent : forall md S S' rk rk',
  core_spec S = true -> ranked_b rk S = true -> depth_ok rk S md = true ->
  core_spec S' = true -> ranked_b rk' S' = true -> depth_ok rk' S' md = true ->
  Permutation S S' ->
  forall n, model_fields (parse_doc md S) n = model_fields (parse_doc md S') n.
Proof.
  intros md S S' rk rk' HS HR HD HS' HR' HD' P n.
  pose proof (perm_alookup S S' (core_nodup S HS) (core_nodup S' HS') P) as EQ.
  destruct (acyclic_clean md S rk HS HR HD) as (He & Ho & _).
  destruct (acyclic_clean md S' rk' HS' HR' HD') as (He' & Ho' & _).
  destruct (mem_str n (map fst S)) eqn:M.
  - apply mem_str_In in M.
    assert (M' : In n (map fst S')) by (apply (Permutation_in _ (Permutation_map fst P)); exact M).
    destruct (C02_acyclic md S rk HS HR HD n M) as (e & El & _ & f & Hf).
    destruct (C02_acyclic md S' rk' HS' HR' HD' n M') as (e' & El' & _ & f' & Hf').
    unfold model_fields. rewrite El, El'. f_equal.
    rewrite <- (declared_f_ext S S' EQ) in Hf'.
    exact (declared_f_functional _ _ _ _ _ _ Hf Hf').
  - unfold model_fields.
    destruct (alookup n (parsed (parse_doc md S))) as [e|] eqn:El.
    { apply (registry_keys_declared md S HS (HSI S rk HS HR) He Ho) in El. apply mem_str_In in El. congruence. }
    destruct (alookup n (parsed (parse_doc md S'))) as [e'|] eqn:El'; [|reflexivity].
    apply (registry_keys_declared md S' HS' (HSI S' rk' HS' HR') He' Ho') in El'.
    apply (Permutation_in _ (Permutation_map fst (Permutation_sym P))) in El'.
    apply mem_str_In in El'. congruence.
Qed.

(* non-vacuity of the widened fragment: top-level map, top-level unions, allOf with a primitive member *)
Definition sIndex : str := [73;110;100;101;120].
Definition sEither : str := [69;105;116;104;101;114].
Definition sMixed : str := [77;105;120;101;100].
Definition spec_wide : spec :=
  [(sIndex, MapN (Ref sBase));
   (sEither, OneOf [Ref sBase; Prim PString; EnumN]);
   (sMixed, AllOf [Ref sBase; Prim PString; Obj [(snote, Arr EnumN)] [snote; slabel]]);
   (sAccount, AnyOf [Ref sEither; Ref sIndex]);
   (sBase, Obj [(sident, Prim PInteger); (slabel, Prim PString)] [sident])].
Definition rk_wide : list (str * nat) :=
  [(sAccount, 2%nat); (sIndex, 1%nat); (sEither, 1%nat); (sMixed, 1%nat); (sBase, O)].
Example wide_guard_nonvacuous :
  (core_spec spec_wide = true /\ ranked_b rk_wide spec_wide = true /\ depth_ok rk_wide spec_wide default_max_depth = true)
  /\ model_fields (parse_doc default_max_depth spec_wide) sMixed
     = Some [(sident, true, TPrim PInteger); (slabel, true, TPrim PString); (snote, true, TList TEnum)]
  /\ model_fields (parse_doc default_max_depth spec_wide) sIndex = Some [].
Proof. vm_compute. repeat split. Qed.

(* non-vacuity of [inl_spec] with an inline object property (promoted to UserGroup) *)
Definition spec_inl : spec :=
  [(sUser, Obj [(sgroup, Obj [(sxx, Prim PString); (sowner, Ref sAccount)] [sxx]); (sname, Prim PString)] [sgroup]);
   (sAccount, Obj [(sname, Prim PString)] [])].
Example inl_guard_nonvacuous :
  inl_spec spec_inl = true /\ core_spec spec_inl = false
  /\ events (parse_doc default_max_depth spec_inl) = [] /\ oof (parse_doc default_max_depth spec_inl) = false
  /\ all_present spec_inl (parse_doc default_max_depth spec_inl) = true
  /\ faithful_b spec_inl (parse_doc default_max_depth spec_inl) sUser = true
  /\ model_fields (parse_doc default_max_depth spec_inl) sUser
     = Some [(sgroup, true, TRef sUserGroup); (sname, false, TPrim PString)]
  /\ model_fields (parse_doc default_max_depth spec_inl) sUserGroup
     = Some [(sxx, true, TPrim PString); (sowner, false, TRef sAccount)].
Proof. vm_compute. repeat split. Qed.
