From PG Require Import Lib.Strs Corr.Driver Model.Converter Model.Serializer.

(* finite oracle tables emitted by the harness for exactly the strings / byte strings / JSON nodes
   that occur in the case (computed by CPython's base64 / datetime / int / float / str) *)
Record tables := {
  tb_b64dec : list (str * option (list N));
  tb_b64enc : list (list N * str);
  tb_dt : list (str * option str);
  tb_date : list (str * option str);
  tb_uuid : list (str * option str);
  tb_time : list (str * option str);
  tb_int : list (str * option Z);
  tb_float : list (str * option Z);
  tb_str : list (json * str) }.

Definition look {V} (t : list (str * option V)) (s : str) : option V :=
  match alookup s t with Some r => r | None => None end.
Definition look_str (t : list (json * str)) (j : json) : str :=
  match find (fun p => json_eqb (fst p) j) t with Some p => snd p | None => [] end.

Inductive c16_in :=
| InConv (tb : tables) (ct : list cls) (ops : list op)
| InSer (h : heap) (root : nat).

Inductive c16_obs :=
| ObConv (l : list obs)
| ObSer (r : sres json).

Definition outcome_eqb {A} (eqb : A -> A -> bool) (a b : outcome A) : bool :=
  match a, b with
  | Returned x, Returned y => eqb x y
  | ValueError, ValueError | OtherError, OtherError => true
  | _, _ => false
  end.
Definition obs_eqb (a b : obs) : bool :=
  match a, b with
  | ObsV x, ObsV y => outcome_eqb value_eqb x y
  | ObsJ x, ObsJ y => outcome_eqb json_eqb x y
  | _, _ => false
  end.
Definition c16_obs_eqb (a b : c16_obs) : bool :=
  match a, b with
  | ObConv x, ObConv y => list_eqb obs_eqb x y
  | ObSer (SOk x), ObSer (SOk y) => json_eqb x y
  | ObSer SFuel, ObSer SFuel => true
  | _, _ => false
  end.

(* Where the model's walk exhausts its budget (outside guard_F16a) the implementation's outcome is not
   a function of the heap alone (RecursionError, or an exponential walk cut by the harness, or - when
   the RecursionError is swallowed inside cattrs' dispatcher - partially converted data): there the
   comparison only demands that the model reports that failure; the finding is keyed by the guard bit. *)
Definition case_eqb (c : c16_in) (m o : c16_obs) : bool :=
  match c, m with
  | InSer _ _, ObSer SFuel => true
  | _, _ => c16_obs_eqb m o
  end.

Definition model_obs (c : c16_in) : c16_obs :=
  match c with
  | InConv tb ct ops =>
      ObConv (run_ops (look (tb_b64dec tb))
                      (fun b => match alookup b (tb_b64enc tb) with Some s => s | None => [] end)
                      (look (tb_dt tb)) (look (tb_date tb)) (look (tb_uuid tb)) (look (tb_time tb)) (look (tb_int tb)) (look (tb_float tb))
                      (look_str (tb_str tb)) ct st0 ops)
  | InSer h r => ObSer (serialize_top h r)
  end.

(* the registration walk of every operation is closed under "class mentions class" (its fuel sufficed) *)
Definition reach_closed (ct : list cls) (T : ty) : bool :=
  let R := reach ct T in
  forallb (fun c => mem_N c R) (ty_classes T) && forallb (fun c => forallb (fun d => mem_N d R) (cls_refs ct c)) R.
Definition op_reach_closed (ct : list cls) (o : op) : bool :=
  match o with
  | OpStructure T _ => reach_closed ct T
  | OpUnstructure (VData c _) => reach_closed ct (TData c)
  | _ => true
  end.

(* F16b: every unstructure_to_dict of the case gives, in the state it is run in, what a converter
   without history gives *)
Definition guard_F16b (tb : tables) (ct : list cls) (ops : list op) : bool :=
  let stepf := step (look (tb_b64dec tb))
                    (fun b => match alookup b (tb_b64enc tb) with Some s => s | None => [] end)
                    (look (tb_dt tb)) (look (tb_date tb)) (look (tb_uuid tb)) (look (tb_time tb)) (look (tb_int tb))
                    (look (tb_float tb)) (look_str (tb_str tb)) ct in
  (fix go (st : state) (ops : list op) : bool :=
     match ops with
     | [] => true
     | o :: r => let (st', b) := stepf st o in
                 match o with
                 | OpUnstructure _ => obs_eqb b (snd (stepf st0 o))
                 | _ => true
                 end && go st' r
     end) st0 ops.

Definition guards (c : c16_in) : list bool :=
  match c with
  | InConv tb ct ops => [true; true; forallb (op_reach_closed ct) ops; guard_F16b tb ct ops]
  | InSer h r => [guard_F16a h r; true; true; true]
  end.

Definition code16 (c : c16_in * c16_obs) : N :=
  (if case_eqb (fst c) (model_obs (fst c)) (snd c) then 0 else 1)
  + bits_of (map negb (guards (fst c))) 2.
Definition run (cases : list (c16_in * c16_obs)) : list N := map code16 cases.
