From PG Require Import Lib.Strs Corr.Driver Model.Union Model.UnionHist Model.UnionGen.
From Coq Require Import ZArith.

Fixpoint value_eqb (a b : value) {struct a} : bool :=
  match a, b with
  | VNone, VNone => true
  | VBool x, VBool y => Bool.eqb x y
  | VInt x, VInt y => Z.eqb x y
  | VStr x, VStr y => str_eqb x y
  | VList x, VList y =>
      (fix go (x y : list value) : bool :=
         match x, y with
         | [], [] => true
         | a :: x', b :: y' => value_eqb a b && go x' y'
         | _, _ => false
         end) x y
  | VDict x, VDict y =>
      (fix go (x y : list (str * value)) : bool :=
         match x, y with
         | [], [] => true
         | (k, a) :: x', (k', b) :: y' => str_eqb k k' && value_eqb a b && go x' y'
         | _, _ => false
         end) x y
  | VObj c x, VObj c' y =>
      str_eqb c c' &&
      (fix go (x y : list (str * value)) : bool :=
         match x, y with
         | [], [] => true
         | (k, a) :: x', (k', b) :: y' => str_eqb k k' && value_eqb a b && go x' y'
         | _, _ => false
         end) x y
  | _, _ => false
  end.

(* observation: decoded value (class names, field order) and its re-encoding, or an error *)
Definition obs := res (value * json).
Definition obs_eqb (a b : obs) : bool :=
  match a, b with
  | Err, Err => true
  | Ok (v, j), Ok (v', j') => value_eqb v v' && json_eqb j j'
  | _, _ => false
  end.
Definition model_obs (c : ty * json) : obs :=
  match structure (fst c) (snd c) with
  | Ok v => Ok (v, unstructure v)
  | Err => Err
  end.
(* bit1 F14a, bit2 F14b, bit3 F14d *)
Definition guards (c : ty * json) : list bool :=
  let b := blame_of (fst c) (snd c) in [negb (b_a b); negb (b_b b); negb (b_d b)].
Definition run (cases : list ((ty * json) * obs)) : list N :=
  report obs_eqb model_obs guards cases.

(* F14f: a process = successive calls through one converter; bit1 = the order-consistency guard fails *)
Definition model_hist (rqs : list (ty * json)) : list obs :=
  map (fun r => match r with Ok v => Ok (v, unstructure v) | Err => Err end) (UnionHist.run empty_state rqs).
Definition run_hist (cases : list (list (ty * json) * list obs)) : list N :=
  report (list_eqb obs_eqb) model_hist (fun rqs => [consistentb (map fst rqs)]) cases.

(* generator side: alias text of a oneOf/anyOf (members as resolved type strings, nullable flag) *)
Definition run_alias (cases : list ((list str * bool) * str)) : list N :=
  report str_eqb (fun c => alias_type (fst c) (snd c)) (fun _ => []) cases.

(* generator side: enum typing of the variants' discriminator property after the collector ran;
   case = (unions in schema order, variant names to look at); bit1 F14g, bit2 F14h *)
Definition run_collect (cases : list ((list dunion * list str) * list (option (list str)))) : list N :=
  report (list_eqb (opt_eqb (list_eqb str_eqb)))
         (fun c => map (fun V => alookup V (collect (fst c))) (snd c))
         (fun c => [guard_F14g (fst c); guard_F14h (fst c)]) cases.

(* the same with variants that declare their own discriminator enum: case = ((own, unions), variants) *)
Definition run_collect_o (cases : list (((ptab * list dunion) * list str) * list (option (list str)))) : list N :=
  report (list_eqb (opt_eqb (list_eqb str_eqb)))
         (fun c => map (final_enum (fst (fst c)) (snd (fst c))) (snd c))
         (fun c => [guard_F14g (snd (fst c)); guard_F14h (snd (fst c))]) cases.
