(* C15 correspondence drivers.  Three relations:
   run_lex  : lexer model vs CPython (tokenize + literal_eval)
   run_site : site functions vs the real rendering functions
   run_pipe : predicted inertness of all sites fed by a document position vs the pipeline oracle's verdict
   Code per case: bit0 = model <> implementation, bit k = guard of finding k is false (see known_findings/C15.json). *)
From PG Require Import Lib.Strs Corr.Driver Model.Escape Model.Names Model.Dedup.

(* ---------- (i) *)
Definition tr_nl := fix go (s : str) : str :=
  match s with
  | c :: r => if c =? 13 then 10 :: (match r with d :: r' => if d =? 10 then go r' else go r | [] => [] end) else c :: go r
  | [] => []
  end.
Definition lex_obs_eqb (a b : option (str * str)) : bool :=
  match a, b with
  | None, None => true
  | Some (v1, r1), Some (v2, r2) => str_eqb v1 v2 && str_eqb (tr_nl r1) r2
  | _, _ => false
  end.
Definition run_lex (cases : list (str * option (str * str))) : list N :=
  report lex_obs_eqb lex_lit (fun _ => []) cases.

(* ---------- (ii) site numbers: 1 enum_value 2 meta_key 3 disc_prop 4 disc_value 5 query_key 6 header_key 7 media_type
   8 default 9 alias_doc 10 field_comment 11 wrapper_doc (block) 12 DocumentationWriter (relational) *)
Definition site_fn (n : N) : option (str -> str) :=
  if n =? 1 then Some site_enum_value else if n =? 2 then Some site_meta_key else if n =? 3 then Some site_disc_prop
  else if n =? 4 then Some site_disc_value else if n =? 5 then Some site_query_key else if n =? 6 then Some site_header_key
  else if n =? 7 then Some site_media_type else if n =? 8 then Some site_default else if n =? 9 then Some site_alias_doc
  else if n =? 10 then Some site_field_comment else if n =? 17 then Some site_enum_default else None.

Definition site_case := (N * (str * (list str * str)))%type.
Definition site_model_ok (c : site_case) : bool :=
  let '(n, (t, (aux, out))) := c in
  match site_fn n with
  | Some f => str_eqb (join (f t) aux) out
  | None =>
      if n =? 11 then
        match aux with
        | [pre; post] => str_eqb (site_block_doc pre post t) out && safe_doc_raw pre
                         && match post with sep :: post' => sep_ok sep && isoq post' | [] => false end
        | _ => false
        end
      else if n =? 16 then      (* client description: aux = [docstring text before; after] *)
        match aux with
        | [pre; post] => str_eqb (q3 ++ pre ++ site_client_desc t ++ post ++ q3) out
        | _ => false
        end
      else if n =? 12 then site_docwriter_rel (join t aux) out && safe_doc_raw (concat aux)
      else if n =? 20 then   (* repr site: aux = [text before; text after; the non-ASCII characters of t that str.isprintable accepts] *)
        match aux with
        | [pre; post; table] => str_eqb (pre ++ site_media_repr (fun c => existsb (N.eqb c) table) t ++ post) out
        | _ => false
        end
      else false
  end.

(* guard of site n on text t *)
Definition site_safe (n : N) (t : str) : bool :=
  if ((5 <=? n) && (n <=? 7)) || (n =? 20) then in_range t     (* ASCII-only escapers: every string *)
  else scalar t.                                                     (* every other site: every Unicode scalar string *)
(* finding bit of site n: 1 F15a enum  2 F15b Meta  3 F15c alias  4 F15d DocumentationWriter  5 F15e comment
   6 F15f query/header keys  7 F15g client docstring  8 F15h default  9 F15i discriminator  10 F15j media type
   11 F15k raw docstring templates (wrapper classes, overload docstring, tag docstrings) *)
Definition site_finding (n : N) : N :=   (* no open finding: F15a-l are fixed *)
  0.
Definition findings : list N := [1; 2; 3; 4; 5; 6; 7; 8; 9; 10; 11; 12].
Definition guards_for (ns : list N) (t : str) : list bool :=
  map (fun j => forallb (fun n => negb (site_finding n =? j) || site_safe n t) ns) findings.

Definition run_site (cases : list site_case) : list N :=
  report Bool.eqb site_model_ok (fun c => guards_for [fst c] (fst (snd c))) (map (fun c => (c, true)) cases).

(* ---------- (iii) predicted verdict for a position feeding sites ns with text t *)
Definition ws_to_sp (t : str) : str := map (fun c => if doc_ws c then 32 else c) t.
Definition block_line (t : str) : str := site_block_line t.
(* a docstring statement may be several adjacent literals on one logical line (implicit concatenation), e.g. the
   text of seven quotes inside QQQ...QQQ: still one expression statement made of string-literal content only *)
Fixpoint skip_sp (s : str) : str := match s with c :: r => if (c =? 32) || (c =? 9) then skip_sp r else s | [] => [] end.
Fixpoint lex_concat (fuel : nat) (s : str) : bool :=
  match fuel with
  | O => false
  | S f => match lex_str s with
           | Some (_, rest) => match skip_sp rest with
                               | [] => true
                               | c :: r => if c =? 34 then lex_concat f (c :: r) else false
                               end
           | None => false
           end
  end.
Definition inert_doc_b (out : str) : bool := match out with [] => true | _ => lex_concat (S (length out)) out end.
Definition site_pred (n : N) (t : str) : bool :=
  match site_fn n with
  | Some f =>
      if n =? 9 then inert_doc_b (f t)
      else if n =? 10 then   (* the comment followed by the line's LF: one physical line (a final CR joins the LF) *)
        match lex_comment (skipn 2 (f t) ++ [10]) with
        | Some (_, rest) => str_eqb rest [10] || str_eqb rest [13; 10]
        | None => false
        end
      else inert_dq_b f t
  | None =>
      if n =? 12 then inert_doc_b (block_line (ws_to_sp t))
      else if n =? 13 then inert_doc_b (site_tag_doc t)
      else if n =? 15 then inert_doc_b (site_client_title [49;46;48] t)
      else if n =? 16 then     (* the description on its own lines of the class docstring (exact model of the clean-up) *)
        inert_doc_b (q3 ++ 10 :: site_client_desc t ++ 10 :: q3)
      else if n =? 20 then
        match lex_lit (site_media_repr (fun _ => false) t) with Some (v, []) => str_eqb v t | _ => false end
      else inert_doc_b (block_line t)
  end.
Definition pipe_model (c : list N * str) : bool := forallb (fun n => site_pred n (snd c)) (fst c).
Definition run_pipe (cases : list ((list N * str) * bool)) : list N :=
  report Bool.eqb pipe_model (fun c => guards_for (fst c) (snd c)) cases.

(* ---------- (iv) names: text that the generator turns into an identifier.  Predicted verdict of the pipeline oracle
   from property C20's model of the sanitisers (Model/Names.v); guards = the C20 findings that already break it.
   kind 1: property / parameter / path-variable names, operationId  -> sanitize_method_name
   kind 2: tag -> sanitize_module_name (ASCII tags: computed; non-ASCII: str.isidentifier verdict [py] from the harness)
   kind 3: component schema name -> sanitize_class_name
   guard bits: 1 F20b (no ASCII letter/digit -> empty name)  2 F20c (tag without ASCII letter/digit)
               3 F20h (non-ASCII tag)  4 F20a (schema named None/True/False)  5 F20k (the sanitised class name is changed again by IRSchema.__post_init__: Names.ir_name, w20's model) *)
Definition no_u : N -> bool := fun _ => false.
Definition id_u : N -> str := fun c => [c].
Definition module_name_ascii (s : str) : str := module_name no_u id_u no_u no_u no_u s.
Definition name_pred (c : (N * str) * bool) : bool :=
  let '((k, t), py) := c in
  if k =? 1 then valid_name (method_name t)
  else if k =? 2 then (if forallb is_ascii t then valid_name (module_name_ascii t) else py)
  else valid_name (class_name t) && str_eqb (ir_name (class_name t)) (class_name t).
(* bits 1, 2, 4 were the guards of F20b, F20c, F20a (fixed in /repo: the sanitisers no longer return an empty name or a
   keyword); they are kept as constant true so that the bit numbering of the remaining findings is stable *)
Definition name_guards (c : (N * str) * bool) : list bool :=
  let '((k, t), _) := c in
  [true;
   true;
   negb (k =? 2) || forallb is_ascii t;
   true;
   negb (k =? 3) || str_eqb (ir_name (class_name t)) (class_name t)].
Definition run_names (cases : list (((N * str) * bool) * bool)) : list N :=
  report Bool.eqb name_pred name_guards cases.
