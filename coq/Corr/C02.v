(* Correspondence driver for C02: one number per case,
   bit0 = observe(model) <> observation of load_ir_from_spec(...).schemas,
   bit1 = guard_F02a false (a cycle placeholder was stored / shadowed the parsed schema)
   bit2 = guard_F02b false (two nodes are parsed under the same name: name capture)
   bit3 = guard_F02c false (a cycle-closing reference returned an unstored empty placeholder)
   bit4 = guard_F02d false (depth placeholder for an inline name / left in the registry) *)
From PG Require Import Lib.Strs Corr.Driver Model.AllOf Model.Parser.

Definition sobs_eqb (a b : sobs) : bool :=
  match a, b with
  | (k1, n1, f1, t1, fs1), (k2, n2, f2, t2, fs2) =>
    str_eqb k1 k2 && opt_eqb str_eqb n1 n2 && (f1 =? f2) && tyref_eqb t1 t2 && list_eqb field_eqb fs1 fs2
  end.

Definition res_eqb (a b : list sobs + N) : bool :=
  match a, b with
  | inl x, inl y => list_eqb sobs_eqb x y
  | inr x, inr y => x =? y
  | _, _ => false
  end.

Definition model_obs (c : N * spec) : list sobs + N := run_doc (fst c) (snd c).
Definition guards (c : N * spec) : list bool :=
  let s := parse_doc (fst c) (snd c) in
  [guard_F02a s; guard_F02b (snd c); guard_F02c s; guard_F02d s].
Definition run (cases : list ((N * spec) * (list sobs + N))) : list N :=
  report res_eqb model_obs guards cases.
