(* C19 correspondence drivers (streams of harness/prop_C19.py).
   bit 0 = model differs from the implementation's observation; bit k = guard conjunct k is false. *)
From PG Require Import Lib.Strs Corr.Driver Model.Sites Model.Diff Model.Render.

Definition strs_eqb := list_eqb str_eqb.

(* ---- render: which methods exist in which endpoints module, in which order *)
Definition render_in := (list (str * str) * list (str * str) * doc * graph)%type.
Definition by_tag_same (model obs : list (str * list str)) : bool :=
  Nat.eqb (length model) (length obs) &&
  forallb (fun kv => match alookup (fst kv) obs with Some ms => strs_eqb ms (snd kv) | None => false end) model.
Definition run_render (cases : list (render_in * list (str * list str))) : list N :=
  report by_tag_same
         (fun c => match c with (tags, sans, d, _) => emitted_by_tag (san_of tags) (san_of sans) (parse_doc d) end)
         (fun c => match c with (_, _, d, g) => [guard_acyclic g; guard_no_allof_cycle g] end) cases.

(* ---- keys: load_ir_from_spec(...).operations *)
Definition op_row := (str * str * str * list str)%type.
Definition op_row_eqb (a b : op_row) : bool :=
  match a, b with (p1, m1, i1, c1), (p2, m2, i2, c2) => str_eqb p1 p2 && str_eqb m1 m2 && str_eqb i1 i2 && strs_eqb c1 c2 end.
Definition run_keys (cases : list (doc * option (list op_row))) : list N :=
  report (opt_eqb (list_eqb op_row_eqb))
         (fun d => Some (map (fun p => (p_path p, p_method p, p_id p, p_codes p)) (parse_doc d)))
         (fun _ => []) cases.

(* ---- yamlkey: what PyYAML does to an unquoted key *)
Definition run_yamlkey (cases : list (str * key)) : list N :=
  report key_eqb (fun s => retype_key (KStr s)) (fun _ => []) cases.

(* ---- fields *)
Definition run_fields (cases : list ((list (str * str) * list prop) * list (str * bool))) : list N :=
  report (list_eqb (pair_eqb str_eqb Bool.eqb))
         (fun c => map (fun f => (fst (fst f), snd f)) (gen_fields (san_of (fst c)) (snd c)))
         (fun _ => []) cases.
