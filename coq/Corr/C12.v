(* C12 correspondence driver.  One case = one question put both to the model and to the implementation /
   CPython:  relative-path functions, CPython's resolve_name, the allow-list verdict on one import statement of
   one emitted file, and the import table of one emitted runtime file. *)
From PG Require Import Lib.Strs Corr.Driver Model.CoreImports Gen.T_C12.
From Coq Require Import Arith.PeanoNat.

Inductive cin :=
| CCalc (cur tgt : modpath) (tdir : bool)          (* RenderContext.calculate_relative_path_for_internal_module *)
| CMri (cur tgt : modpath)                          (* import_collector.make_relative_import *)
| CRes (package : modpath) (level : nat) (name : modpath)   (* importlib.util.resolve_name *)
| CStmt (pkg core cur : modpath) (is_pkg : bool) (level : nat) (parts : modpath) (loc : N)
| CCore (file : modpath)
| CAdd (pkg m : modpath).   (* RenderContext.add_import(m, "X") from <pkg>/cur.py: absolute module finally imported *)                           (* import statements of the emitted runtime file *)

Inductive cobs :=
| OImp (o : option (nat * modpath))
| OPath (o : option modpath)
| OBool (b : bool)
| ORt (l : list (nat * modpath * N)).

Definition imp_pair (i : imp) := (i_level i, i_parts i).

Definition core_modules : list modpath :=
  generated_core_modules ++ map (fun f => snd f) runtime_files.

(* the harness's RenderContext for CAdd cases uses core_package_name = "zz_core" *)
Definition s_zz_core : str := [122;122;95;99;111;114;101].

Definition model (c : cin) : cobs :=
  match c with
  | CCalc cur tgt tdir => OImp (option_map imp_pair (calc_relative cur tgt tdir))
  | CMri cur tgt => OImp (Some (imp_pair (make_relative_import cur tgt)))
  | CRes p l n => OPath (resolve_name p l n)
  | CStmt pkg core cur is_pkg level parts loc =>
      OBool (allowed_at stdlib_names pkg core cur is_pkg (mkImp level parts))
  | CAdd pkg m => OPath (Some (repair stdlib_names pkg [s_zz_core] m))
  | CCore file =>
      ORt (map (fun r => (ri_level r, ri_parts r, ri_loc r))
               (filter (fun r => modpath_eqb (ri_file r) file) runtime_imports))
  end.

Definition nat_pair_eqb (a b : nat * modpath) := Nat.eqb (fst a) (fst b) && modpath_eqb (snd a) (snd b).
Definition cobs_eqb (a b : cobs) : bool :=
  match a, b with
  | OImp x, OImp y => opt_eqb nat_pair_eqb x y
  | OPath x, OPath y => opt_eqb modpath_eqb x y
  | OBool x, OBool y => Bool.eqb x y
  | ORt x, ORt y => list_eqb (fun p q => nat_pair_eqb (fst p) (fst q) && (snd p =? snd q)) x y
  | _, _ => false
  end.

(* guard conjunct 1 (F12a): the statement is not core/utils.py's nested `from black import …` *)
Definition guards (c : cin) : list bool :=
  match c with
  | CStmt pkg core cur is_pkg level parts loc =>
      [negb (prefix_parts core cur
             && negb (guard_F12a (mkRI (skipn (length core) cur) level parts loc)))]
  | _ => [true]
  end.

Definition run (cases : list (cin * cobs)) : list N := report cobs_eqb model guards cases.
