From PG Require Import Lib.Strs Corr.Driver Model.GenFS.

(* observation of one generate call:
   outcome (0 = returned, 1 = "Differences found", 2 = injected failure at the stage, 4 = invalid package name),
   audit events (stage, kind, absolute path) as a set, and the paths below the project root that
   exist afterwards but not before / before but not afterwards (sets) *)
Definition obs := (N * option stage * list (stage * kind * path) * list path * list path)%type.

Definition kind_eqb (a b : kind) : bool := match a, b with W, W | D, D => true | _, _ => false end.
Definition ev_eqb (a b : stage * kind * path) : bool :=
  match a, b with (s1, k1, p1), (s2, k2, p2) => stage_eqb s1 s2 && kind_eqb k1 k2 && path_eqb p1 p2 end.
Definition set_eqb {A} (eqb : A -> A -> bool) (a b : list A) : bool :=
  forallb (fun x => existsb (eqb x) b) a && forallb (fun y => existsb (eqb y) a) b.

Definition outcome_code (o : outcome) : N * option stage :=
  match o with Ok => (0, None) | DiffFound => (1, None) | Fail st => (2, Some st) | Invalid => (4, None) end.

Definition model_obs (x : config * option stage * fs) : obs :=
  match x with
  | (c, k, s) =>
      let r := generate c k s in
      let s' := fst r in
      let oc := outcome_code (snd r) in
      (fst oc, snd oc, events s (plan c k s),
       map fst (filter (fun kv => under (root c) (fst kv) && negb (exists_b s (fst kv))) s'),
       map fst (filter (fun kv => under (root c) (fst kv) && negb (exists_b s' (fst kv))) s))
  end.

Definition obs_eqb (a b : obs) : bool :=
  match a, b with
  | (n1, s1, e1, c1, d1), (n2, s2, e2, c2, d2) =>
      N.eqb n1 n2 && opt_eqb stage_eqb s1 s2 && set_eqb ev_eqb e1 e2
      && set_eqb path_eqb c1 c2 && set_eqb path_eqb d1 d2
  end.

Definition guards (x : config * option stage * fs) : list bool :=
  match x with (c, _, _) => [] end.

Definition run (cases : list ((config * option stage * fs) * obs)) : list N :=
  report obs_eqb model_obs guards cases.

(* inner I/O failure cases: outcome 3 = the injected OSError propagated (with the stage it hit) *)
Definition model_obs_io (x : config * str * fs) : obs :=
  match x with
  | (c, name, s) =>
      let r := generate_io c name s in
      let s' := fst r in
      let oc := match snd r with Returned o => outcome_code o | FailIO st => (3, Some st) end in
      (fst oc, snd oc, events s (plan_io c name s),
       map fst (filter (fun kv => under (root c) (fst kv) && negb (exists_b s (fst kv))) s'),
       map fst (filter (fun kv => under (root c) (fst kv) && negb (exists_b s' (fst kv))) s))
  end.
Definition guards_io (x : config * str * fs) : list bool :=
  match x with (c, name, s) => [] end.
Definition run_io (cases : list ((config * str * fs) * obs)) : list N :=
  report obs_eqb model_obs_io guards_io cases.
