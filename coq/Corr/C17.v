From PG Require Import Lib.Strs Corr.Driver Model.Transport.

Definition obs1 := result (dict * dict * dict * str).
Definition dict_eqb := list_eqb (pair_eqb str_eqb str_eqb).
Definition obs1_eqb (a b : obs1) : bool :=
  match a, b with
  | Err, Err => true
  | Ok (h1, p1, c1, b1), Ok (h2, p2, c2, b2) =>
      dict_eqb h1 h2 && dict_eqb p1 p2 && dict_eqb c1 c2 && str_eqb b1 b2
  | _, _ => false
  end.
Definition model_obs (c : transport * list kwargs) : list obs1 :=
  map (fun r => match r with
                | Ok w => Ok (on_wire_headers (w_headers w), get_or_empty (w_params w),
                              get_or_empty (w_cookies w), w_body w)
                | Err => Err
                end) (session (fst c) (snd c)).
Definition guards (c : transport * list kwargs) : list bool :=
  [].
Definition run (cases : list ((transport * list kwargs) * list obs1)) : list N :=
  report (list_eqb obs1_eqb) model_obs guards cases.
