From PG Require Import Lib.Strs Corr.Driver Model.Converter Model.ModelGen Corr.C16 Proofs.ModelGen.

(* input: oracle tables (as in C16), NameSanitizer.sanitize_method_name as a finite table for the
   property names of the case, the object schemas, the converter operations run on the generated
   package.  observation: the dataclasses found in the imported package (fields with their runtime
   annotations and defaults, both Meta dicts) and the outcome of every operation. *)
Definition c03_in := (tables * list (str * str) * list oschema * list op)%type.
Definition c03_obs := (list cls * list obs)%type.

Definition field_eqb (a b : field) : bool :=
  str_eqb (f_name a) (f_name b) && ty_eqb (f_ty a) (f_ty b) && opt_eqb value_eqb (f_default a) (f_default b).
Definition map_eqb := opt_eqb (list_eqb (pair_eqb str_eqb str_eqb)).
Definition cls_eqb (a b : cls) : bool :=
  (c_id a =? c_id b) && list_eqb field_eqb (c_fields a) (c_fields b)
  && map_eqb (c_load a) (c_load b) && map_eqb (c_dump a) (c_dump b).

Definition san_of (t : list (str * str)) (s : str) : str :=
  match alookup s t with Some r => r | None => s end.

Definition model_ct (c : c03_in) : list cls :=
  let '(_, san, schemas, _) := c in map (gen_class (san_of san)) schemas.

Definition model_obs (c : c03_in) : c03_obs :=
  let '(tb, san, schemas, ops) := c in
  let ct := model_ct c in
  (ct, run_ops (look (tb_b64dec tb))
               (fun b => match alookup b (tb_b64enc tb) with Some s => s | None => [] end)
               (look (tb_dt tb)) (look (tb_date tb)) (look (tb_uuid tb)) (look (tb_time tb)) (look (tb_int tb)) (look (tb_float tb))
               (look_str (tb_str tb)) ct st0 ops).

Definition c03_obs_eqb (a b : c03_obs) : bool :=
  list_eqb cls_eqb (fst a) (fst b) && list_eqb obs_eqb (snd a) (snd b).

(* F03b: some string of some document is a date-time in "Z" notation *)
Fixpoint json_strings (j : json) : list str :=
  match j with
  | JStr s => [s]
  | JArr l => flat_map json_strings l
  | JObj kvs => flat_map (fun kv => json_strings (snd kv)) kvs
  | _ => []
  end.
Definition is_z_datetime (tb : tables) (s : str) : bool :=
  negb (str_eqb (replace_Z s) s) && match look (tb_dt tb) (replace_Z s) with Some _ => true | None => false end.
Definition guard_F03b (c : c03_in) : bool :=
  let '(tb, _, _, ops) := c in
  negb (existsb (fun o => match o with
                          | OpStructure _ j | OpRaw _ j => existsb (is_z_datetime tb) (json_strings j)
                          | _ => false
                          end) ops).

(* hypothesis of C03_maps_bijective_partial: must hold on every case *)
Definition guard_names (c : c03_in) : bool :=
  let '(_, san, schemas, _) := c in
  forallb (fun s => nodupb (map snd (names_of (san_of san) s))) schemas.

Definition guards (c : c03_in) : list bool :=
  [true; guard_F03b c; true; guard_names c].

Definition run (cases : list (c03_in * c03_obs)) : list N :=
  report c03_obs_eqb model_obs guards cases.
