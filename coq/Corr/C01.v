(* C01 correspondence driver: one case = one generated package, reduced by the harness's ast extractor to module
   skeletons, with the list of modules to import; the observation is the outcome class of importing each module
   in a fresh package state (0 = ok, else err_code).  Guard conjuncts = the conjuncts of pkg_ok. *)
From PG Require Import Lib.Strs Corr.Driver Model.CoreImports Model.PyImport Gen.T_C01.

Definition model (c : package * list modpath) : list N :=
  let pkg := fst c in
  map (fun p => match exec_mod builtin_names pkg (size pkg) p with Ok _ => 0 | Fail e => err_code e end) (snd c).

Definition guards (c : package * list modpath) : list bool := pkg_ok_conjuncts builtin_names (fst c).

Definition run (cases : list ((package * list modpath) * list N)) : list N :=
  report (list_eqb N.eqb) model guards cases.

(* ---- the generator skeleton of the models sub-package vs the (projected) extracted skeleton of the real models/ *)
From PG Require Import Model.GenModels.
Definition model_models (c : modpath * spec) : package := gen_models_skeleton (fst c) (snd c).
Definition guards_models (c : modpath * spec) : list bool :=
  [pkg_ok_with builtin_names (model_models c) (models_order (fst c) (snd c));
   acyclic_refs (snd c) && names_ok (fst c) (snd c)].
Definition run_models (cases : list ((modpath * spec) * package)) : list N :=
  report skel_equiv model_models guards_models cases.
