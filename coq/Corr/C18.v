(* C18 correspondence: the model is evaluated on the SAME chunk lists the implementation was driven with.
   One case = several chunkings of one byte stream (+ what the sender meant, when the stream was produced
   by the harness encoder) and, per chunking, everything the real helpers yielded. *)
From PG Require Import Lib.Strs Corr.Driver Model.Streaming.

(* what the sender meant *)
Inductive spec :=
| SRaw                                               (* arbitrary bytes *)
| SSse (t : term) (k : tailk) (bs : list block)      (* stream = utf8 (encode t k bs) *)
| SNd (t : term) (k : tailk) (ls : list str).        (* stream = utf8 (lines ls, one record per line) *)

Record input := {
  i_chunkings : list (list bytes);
  i_spec : spec;
  i_int : list (str * Z);        (* CPython's int() on the candidate retry values of this stream *)
  i_int_fail : list str;         (* ASCII candidates on which int() raised ValueError *)
  i_json : list (str * N);       (* CPython's json.loads on the candidate NDJSON lines: id of the canonical dump *)
  i_h_sse : helper;              (* helper the generated text/event-stream operation calls (read off the generated code) *)
  i_h_nd : helper                (* helper the generated application/x-ndjson operation calls *)
}.

Record obs := {
  o_bad : bool;                  (* strict UTF-8 decoding of the stream would raise (everything is still compared: errors="replace") *)
  o_bytes : list bytes;          (* iter_bytes *)
  o_texts : list str;            (* Response.aiter_text *)
  o_lines : list str;            (* Response.aiter_lines *)
  o_sse : list event;            (* iter_sse *)
  o_tev : list str;              (* iter_sse_events_text *)
  o_nd : list N * bool;          (* iter_ndjson: items (ids), raised? *)
  (* END-TO-END, through a generated client (server = MockTransport with the same async chunk iterator):
     items of the text/event-stream operation, of the application/x-ndjson operation (each through the helper named in
     i_h_sse / i_h_nd) and of the octet-stream operation (`async for chunk in iter_bytes(response)`).  None = this case was not driven end to end. *)
  o_e2e : option ((list N * bool) * (list N * bool) * list bytes)
}.

(* compact form written by the harness: per-chunking bytes observation + the part shared by all chunkings *)
Definition expand (bl : list (list bytes)) (bad : bool) (texts : list (list str)) (lines : list str)
    (sse : list event) (tev : list str) (nd : list N * bool)
    (e2e : option ((list N * bool) * (list N * bool) * list bytes)) : list obs :=
  map (fun bt => {| o_bad := bad; o_bytes := fst bt; o_texts := snd bt; o_lines := lines; o_sse := sse;
                    o_tev := tev; o_nd := nd; o_e2e := e2e |}) (combine bl texts).

Definition lookup_int (tbl : list (str * Z)) (s : str) : option Z := alookup s tbl.
Definition lookup_json (tbl : list (str * N)) (s : str) : option N := alookup s tbl.

Definition strs_eqb := list_eqb str_eqb.

Definition model_one (i : input) (cs : list bytes) : obs :=
  let pi := lookup_int (i_int i) in
  let js := lookup_json (i_json i) in
  {| o_bad := negb (utf8_wf (concat cs)); o_bytes := iter_bytes cs; o_texts := aiter_text cs;
     o_lines := aiter_lines cs; o_sse := iter_sse pi cs; o_tev := iter_sse_events_text pi cs;
     o_nd := iter_ndjson N js cs;
     o_e2e := Some (e2e_items pi N js (i_h_sse i) cs, e2e_items pi N js (i_h_nd i) cs, e2e_bytes cs) |}.

Definition model_obs (i : input) : list obs := map (model_one i) (i_chunkings i).

Definition nd_eqb := pair_eqb (list_eqb N.eqb) Bool.eqb.
Definition e2e_differs (m o : obs) : bool :=
  match o_e2e o, o_e2e m with
  | None, _ => false
  | Some (a1, a2, ab), Some (b1, b2, bb) =>
      (* events exactly; bytes by concatenation (how httpx cuts an already-read body is not part of the property) *)
      negb (nd_eqb a1 b1 && nd_eqb a2 b2 && str_eqb (concat ab) (concat bb))
  | Some _, None => true
  end.
Definition obs_diag (a b : obs) : list bool :=   (* a = model, b = implementation; true = differs *)
  [negb (Bool.eqb (o_bad a) (o_bad b)); negb (list_eqb str_eqb (o_bytes a) (o_bytes b));
   negb (strs_eqb (o_texts a) (o_texts b)); negb (strs_eqb (o_lines a) (o_lines b));
   negb (list_eqb event_eqb (o_sse a) (o_sse b)); negb (strs_eqb (o_tev a) (o_tev b));
   negb (nd_eqb (o_nd a) (o_nd b)); e2e_differs a b].
Definition obs_eqb (a b : obs) : bool := negb (existsb (fun x => x) (obs_diag a b)).

(* the sender's text really is the stream (ties the harness encoder to Streaming.encode) *)
Definition spec_ok (i : input) : bool :=
  match i_chunkings i with
  | [] => false
  | cs :: _ =>
      match i_spec i with
      | SRaw => true
      | SSse t k bs => str_eqb (utf8_decode (concat cs)) (encode t k bs)
      | SNd t k ls =>
          str_eqb (utf8_decode (concat cs))
            (match k with
             | TNone => join (term_s t) ls
             | _ => enc_lines t ls
             end)
      end
  end.

(* py_int_ascii agrees with CPython's int() on every ASCII candidate of the case *)
Definition int_ok (i : input) : bool :=
  forallb (fun kv => if forallb is_ascii (fst kv) then opt_eqb Z.eqb (py_int_ascii (fst kv)) (Some (snd kv)) else true)
          (i_int i)
  && forallb (fun k => opt_eqb Z.eqb (py_int_ascii k) None) (i_int_fail i).

(* all chunkings are chunkings of one stream *)
Definition same_stream (i : input) : bool :=
  match i_chunkings i with
  | [] => false
  | cs :: r => forallb (fun cs' => str_eqb (concat cs') (concat cs)) r
  end.

Definition all_eqb (m o : list obs) : bool := list_eqb obs_eqb m o.

Definition guards (i : input) : list bool :=
  match i_spec i with
  | SRaw => [true; true; true]
  | SSse _ _ bs => [guard_F18a bs; true; guard_dom bs]
  | SNd _ _ ls => [guard_nd_F18a ls; true; forallb no_crlf ls]
  end.

Fixpoint or_diag (a b : list bool) : list bool :=
  match a, b with
  | x :: a', y :: b' => (x || y) :: or_diag a' b'
  | [], l | l, [] => l
  end.

Definition diag (c : input * list obs) : N :=
  let m := model_obs (fst c) in
  let d := fold_left or_diag (map (fun mo => obs_diag (fst mo) (snd mo)) (combine m (snd c))) [] in
  bits_of (d ++ repeat false (8 - length d)%nat
             ++ [negb (spec_ok (fst c)); negb (same_stream (fst c));
                 negb (Nat.eqb (length m) (length (snd c))); negb (int_ok (fst c))]) 256.

(* bit0: model <> implementation (any chunking, any observable, or the spec/stream sanity checks);
   bit1: guard_F18a false; bit2: unused (was F18b, then F18c: both fixed); bit3: outside the encoding's domain;
   bits 8..: diagnostics — 8 ill-formed flag, 9 bytes, 10 texts, 11 lines, 12 sse, 13 events_text, 14 ndjson,
   15 end-to-end (generated client), 16 harness encoder <> Streaming.encode, 17 chunkings of different streams, 18 arity,
   19 py_int_ascii <> CPython's int() on an ASCII candidate *)
Definition run (cases : list (input * list obs)) : list N :=
  map (fun c =>
         code (fun m o => all_eqb m o && spec_ok (fst c) && same_stream (fst c) && int_ok (fst c)) model_obs guards c
         + diag c) cases.
