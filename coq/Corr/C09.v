(* C09 correspondence drivers: one [run_*] per stream of harness/prop_C09.py.
   bit 0 = model differs from the implementation's observation; bit k = guard conjunct k is false. *)
From PG Require Import Lib.Strs Corr.Driver Model.Sites Model.Diff.

(* ---- diff / e2e: _show_diffs *)
Definition run_diff (cases : list ((tree * tree) * bool)) : list N :=
  report Bool.eqb (fun c => show_diffs (fst c) (snd c))
         (fun c => [guard_F09g (fst c) (snd c)]) cases.

(* ---- modes: force run then non-force rerun.  Operation ids of this stream are snake_case identifiers on
   which sanitize_method_name is the identity (asserted by the harness). *)
Definition id_san (s : str) : str := s.
Definition same_paths (a b : list path) : bool :=
  forallb (fun p => mem_path p b) a && forallb (fun p => mem_path p a) b.
(* input: (gen_input, registry found before the rerun, another client of the same core was generated in between) *)
Definition modes_model (c : gen_input * registry * bool) : bool * list path :=
  match c with (g, found, touched) =>
    let ex := existing_after id_san g found touched in
    let d := rerun_differing id_san g ex in
    (match d with [] => true | _ => false end, d)
  end.
Definition run_modes (cases : list ((gen_input * registry * bool) * (bool * list path))) : list N :=
  report (fun a b => Bool.eqb (fst a) (fst b) && same_paths (snd a) (snd b)) modes_model
         (fun _ => []) cases.

(* ---- site1: the path template lists the variables in [o1]; the set is iterated in order o1, then in order o2 *)
Definition site1_in := (list (str * str) * list param * list str * list str)%type.
Definition strs_eqb := list_eqb str_eqb.
Definition run_site1 (cases : list (site1_in * (list str * list str))) : list N :=
  report (pair_eqb strs_eqb strs_eqb)
         (fun c => match c with (tbl, ps, o1, o2) =>
                     (signature_order (san_of tbl) ps o1 o1, signature_order (san_of tbl) ps o1 o2) end)
         (fun _ => []) cases.

(* ---- site2 *)
Definition site2_in := (list str * list (str * action) * collector * list str * list str)%type.
Definition run_site2 (cases : list (site2_in * (str * str))) : list N :=
  report (pair_eqb str_eqb str_eqb)
         (fun c => match c with (std, tbl, c0, o1, o2) =>
                     (typing_imports_render (stdlib_of std) (classify_of tbl) c0 o1,
                      typing_imports_render (stdlib_of std) (classify_of tbl) c0 o2) end)
         (fun _ => []) cases.
