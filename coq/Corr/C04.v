(* Correspondence driver for C04: one case = (sanitize_method_name table, operation, argument
   assignment) with the request captured from the generated client under httpx.MockTransport
   (None = an exception, a SyntaxError at import, or not exactly one request). *)
From PG Require Import Lib.Strs Corr.Driver Model.Wire.

(* a case is a call of the k-th operation of a path item: the loader's handling of path-level parameters
   (every operation of the item inherits them; an operation-level declaration overrides) is part of the
   model (Wire.item_ops / Wire.merge_params) *)
Definition input := (list (str * str) * path_item * nat * args)%type.
Definition op_of (c : input) : op :=
  let '(_, it, k, _) := c in nth k (item_ops it) no_op.
Definition obs := option request.

Definition kv_eqb := list_eqb (pair_eqb str_eqb str_eqb).
Definition bobs_eqb (a b : bobs) : bool :=
  match a, b with
  | ONone, ONone => true
  | OJson x, OJson y => str_eqb x y
  | OFiles x, OFiles y => kv_eqb x y
  | OForm x, OForm y => kv_eqb x y
  | OBytes x, OBytes y => str_eqb x y
  | _, _ => false
  end.
Definition request_eqb (a b : request) : bool :=
  str_eqb (r_method a) (r_method b) && list_eqb str_eqb (r_segs a) (r_segs b)
  && kv_eqb (r_query a) (r_query b) && kv_eqb (r_headers a) (r_headers b)
  && kv_eqb (r_cookies a) (r_cookies b) && opt_eqb str_eqb (r_ctype a) (r_ctype b)
  && bobs_eqb (r_body a) (r_body b).
Definition obs_eqb : obs -> obs -> bool := opt_eqb request_eqb.

(* httpx lower-cases header names on the wire *)
Definition on_wire (r : request) : request :=
  {| r_method := r_method r; r_segs := r_segs r; r_query := r_query r;
     r_headers := map (fun kv => (map lower_ascii (fst kv), snd kv)) (r_headers r);
     r_cookies := r_cookies r; r_ctype := r_ctype r; r_body := r_body r |}.

Definition model_obs (c : input) : obs :=
  let '(tbl, _, _, a) := c in option_map on_wire (call (mn_of tbl) (op_of c) a).
(* bits 1..4: the guards of C04_partial (F04j, F04c, F04d, F04k); bit 5: the call is NOT well typed (outside the theorem) *)
Definition guards_of (c : input) : list bool :=
  let '(tbl, _, _, a) := c in guards (mn_of tbl) (op_of c) a ++ [well_typed (mn_of tbl) (op_of c) a].

Definition run (cases : list (input * obs)) : list N := report obs_eqb model_obs guards_of cases.
