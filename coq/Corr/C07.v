From PG Require Import Lib.Strs Corr.Driver Model.Tags.

(* finite tables produced by the real NameSanitizer / tag_score / str.isidentifier for exactly the
   strings that occur in the case *)
Record tables := {
  t_method : list (str * str);
  t_key : list (str * str);
  t_attr : list (str * str);
  t_class : list (str * str);
  t_clean : list (str * str);            (* key = id ++ [0] ++ MU ++ [0] ++ path *)
  t_score : list (str * (bool * N * N));
  t_ident : list (str * bool)
}.

Definition clean_fun (t : list (str * str)) (i mu p : str) : str :=
  match alookup (i ++ [0] ++ mu ++ [0] ++ p) t with Some v => v | None => i end.
Definition score_fun (t : list (str * (bool * N * N))) (s : str) : bool * N * N :=
  match alookup s t with Some v => v | None => (false, 0, 0) end.
Definition ident_fun (t : list (str * bool)) (s : str) : bool :=
  match alookup s t with Some v => v | None => false end.

Definition input := (tables * strategy * list raw_op)%type.

Inductive obs := OGenErr | OGen (f : list (str * (str * list str))) (p : option (list (str * str))).

Fixpoint remove1 {A} (eqb : A -> A -> bool) (x : A) (l : list A) : option (list A) :=
  match l with
  | [] => None
  | y :: r => if eqb x y then Some r
              else match remove1 eqb x r with Some r' => Some (y :: r') | None => None end
  end.
Fixpoint perm_eqb {A} (eqb : A -> A -> bool) (a b : list A) : bool :=
  match a with
  | [] => match b with [] => true | _ => false end
  | x :: a' => match remove1 eqb x b with Some b' => perm_eqb eqb a' b' | None => false end
  end.

Definition file_eqb : (str * (str * list str)) -> (str * (str * list str)) -> bool :=
  pair_eqb str_eqb (pair_eqb str_eqb (list_eqb str_eqb)).
Definition prop_eqb : (str * str) -> (str * str) -> bool := pair_eqb str_eqb str_eqb.

Definition obs_eqb (a b : obs) : bool :=
  match a, b with
  | OGenErr, OGenErr => true
  | OGen f1 p1, OGen f2 p2 => perm_eqb file_eqb f1 f2 && opt_eqb (perm_eqb prop_eqb) p1 p2
  | _, _ => false
  end.

Section Inst.
  Variable c : input.
  Let t := fst (fst c).
  Let st := snd (fst c).
  Let doc := snd c.
  Let mn := tbl_fun (t_method t).
  Let tk := tbl_fun (t_key t).
  Let ta := tbl_fun (t_attr t).
  Let tc := tbl_fun (t_class t).
  Let cl := clean_fun (t_clean t).
  Let sc := score_fun (t_score t).
  Let pid := ident_fun (t_ident t).

  Definition model_obs : obs :=
    match generate mn tk ta tc cl sc pid st doc with
    | Generated f p => OGen f p
    | Failed => OGenErr
    end.

  Definition guards : list bool :=
    let l := parse mn cl st doc in
    [ dedup_total mn l;      (* model bound of the de-dup search, not a finding *)
      guard_F07f mn cl st doc;
      true;                  (* bit 3 was F07c (fixed) *)
      guard_F07d ta pid l;
      guard_F07e tk ta tc l ].
End Inst.

Definition run (cases : list (input * obs)) : list N :=
  report obs_eqb model_obs guards cases.
