From PG Require Import Lib.Strs Corr.Driver Model.Tags Model.Surface Corr.C07.

(* ---------- relation 1: the two line scanners, on arbitrary method texts ---------- *)
Fixpoint drop_trailing_empty (l : list line) : list line :=
  match l with
  | [] => []
  | x :: r => match drop_trailing_empty r with
              | [] => if is_nil x then [] else [x]
              | r' => x :: r'
              end
  end.
Definition scan_input := (str * list line)%type.            (* (Class.method for the error text, lines) *)
Definition scan_obs := (list line * list line)%type.        (* Protocol stub lines, mock method lines (each stripped) *)
Definition scan_model (c : scan_input) : scan_obs :=
  (drop_trailing_empty (extract_protocol (snd c)), drop_trailing_empty (to_mock (fst c) (snd c))).
Definition scan_eqb : scan_obs -> scan_obs -> bool := pair_eqb (list_eqb str_eqb) (list_eqb str_eqb).
Definition run_scan (cases : list (scan_input * scan_obs)) : list N :=
  report scan_eqb scan_model (fun _ => []) cases.

(* ---------- relation 1b: render_sig = CodeWriter.write_function_signature ---------- *)
Definition c_arg := (str * str * option str)%type.          (* name "" = self ; name "*" = star *)
Definition mk_arg (a : c_arg) : arg :=
  let '(n, t, d) := a in
  if is_nil n then ASelf else if str_eqb n k_star then AStar else AParam n t d.
Definition sig_input := (str * list c_arg * str)%type.
Definition sig_model (c : sig_input) : list line :=
  let '(n, a, r) := c in
  render_sig {| s_name := n; s_args := map mk_arg a; s_ret := r; s_kind := Coroutine; s_style := Standard |}.
Definition run_sig (cases : list (sig_input * list line)) : list N :=
  report (list_eqb str_eqb) sig_model (fun _ => []) cases.

(* ---------- relation 2: mock grouping through the pipeline ---------- *)
Inductive gobs :=
| GGenErr
| GGen (mock_files : list (str * (str * list str))) (mock_props client_props : option (list str)).

Definition gobs_eqb (a b : gobs) : bool :=
  match a, b with
  | GGenErr, GGenErr => true
  | GGen f1 m1 c1, GGen f2 m2 c2 =>
      perm_eqb file_eqb f1 f2 && opt_eqb (perm_eqb str_eqb) m1 m2 && opt_eqb (perm_eqb str_eqb) c1 c2
  | _, _ => false
  end.

(* input of relation 2 = C07's input + the names of the component schemas the document's operations use *)
Definition ginput := (input * list str)%type.
Section Inst.
  Variable gc : ginput.
  Let c := fst gc.
  Let t := fst (fst c).
  Let st := snd (fst c).
  Let doc := snd c.
  Let mn := tbl_fun (t_method t).
  Let tk := tbl_fun (t_key t).
  Let ta := tbl_fun (t_attr t).
  Let tc := tbl_fun (t_class t).
  Let cl := clean_fun (t_clean t).
  Let sc := score_fun (t_score t).
  Let pid := ident_fun (t_ident t).

  Definition group_model : gobs :=
    let l := parse mn cl st doc in
    GGen (mock_files mn tk ta tc sc l) (mock_props mn tk ta sc pid l) (client_props mn tk ta tc sc pid l).

  Definition group_guards : list bool :=
    let l := parse mn cl st doc in
    [ true; true; true ]   (* bit 1 was F13e (fixed) *).
End Inst.

Definition run_groups (cases : list (ginput * gobs)) : list N :=
  report gobs_eqb group_model group_guards cases.
