From PG Require Import Lib.Strs Corr.Driver Model.Dispatch Model.Response.

(* (A) function level: the real private helpers called on arbitrary rendered-type strings *)
Definition fobs := (bool * option str)%type.     (* _should_use_cattrs_structure, _get_cattrs_deserialization_code|ValueError *)
Definition fobs_eqb (a b : fobs) : bool := Bool.eqb (fst a) (fst b) && opt_eqb str_eqb (snd a) (snd b).
Definition model_f (x : registry * str) : fobs :=
  (should_use_cattrs (fst x) (snd x), deser_code (fst x) (snd x) s_rj).
Definition run_f (cases : list ((registry * str) * fobs)) : list N := report fobs_eqb model_f (fun _ => []) cases.
(* the same helpers on [show t]: the claim "AST heuristics = string heuristics o show" *)
Definition run_show (cases : list ((registry * rty) * (str * fobs))) : list N :=
  report (fun a b => str_eqb (fst a) (fst b) && fobs_eqb (snd a) (snd b))
         (fun x => (show (snd x), model_f (fst x, show (snd x)))) (fun _ => []) cases.

(* (B) pipeline level: decode path read off the generated source for (status, content type), whether the module
   imports structure_from_dict, and the method's return annotation *)
Definition path_eqb (a b : path) : bool :=
  match a, b with
  | PNone, PNone | PText, PText | PContent, PContent | PCast, PCast | PStreamBytes, PStreamBytes
  | PStreamSse, PStreamSse | PEndIter, PEndIter | PRaiseHTTP, PRaiseHTTP | PGenError, PGenError => true
  | PStructure c, PStructure c' => str_eqb c c'
  | PStreamNdjson a, PStreamNdjson b => Bool.eqb a b
  | _, _ => false
  end.
Definition pobs := (path * bool * str)%type.
Definition pobs_eqb (a b : pobs) : bool :=
  let '(p1, i1, a1) := a in let '(p2, i2, a2) := b in path_eqb p1 p2 && Bool.eqb i1 i2 && str_eqb a1 a2.
Definition model_p (d : dcase) : pobs := (the_path d, the_imported d, the_annotation d).
Definition guards_p (d : dcase) : list bool :=
  [guard_F05b d; guard_F05c d; guard_F05f d; guard_F05i d].
Definition run (cases : list (dcase * pobs)) : list N := report pobs_eqb model_p guards_p cases.
(* bit 6: the model itself says the property holds (used by the harness only as a cross-check of the oracle) *)
Definition run_holds (cases : list dcase) : list N := map (fun d => if C05_holds d then 1 else 0) cases.

(* well-formedness of the cases the harness generates (hypothesis of C05_partial): 1 = wf, 0 = not *)
Definition run_wf (cases : list dcase) : list N := map (fun d => if wf_dcase d then 1 else 0) cases.
