From PG Require Import Lib.Strs Corr.Driver Model.Registry.

(* observation after one generate call: registry file, alias classes (as codes), per generated
   client the codes whose classes it imports from the core, and whether the call returned *)
Definition obs1 := (option reg * option (list N) * reg * bool)%type.

(* dict equality up to key order (the JSON file is written with sort_keys) *)
Definition reg_eqb (a b : reg) : bool :=
  Nat.eqb (length a) (length b)
  && forallb (fun kv => match alookup (fst kv) b with
                        | Some v => codes_eqb v (snd kv)
                        | None => false
                        end) a.
Definition obs1_eqb (a b : obs1) : bool :=
  match a, b with
  | (r1, a1, c1, o1), (r2, a2, c2, o2) =>
      opt_eqb reg_eqb r1 r2 && opt_eqb codes_eqb a1 a2 && reg_eqb c1 c2 && Bool.eqb o1 o2
  end.
Definition model_obs (c : layout * list gen_call) : list obs1 :=
  map (fun wo => (registry (fst wo), aliases (fst wo), clients (fst wo), snd wo))
      (trace (fst c) init (snd c)).
Definition guards (c : layout * list gen_call) : list bool :=
  [wf_layout (fst c)].
Definition run (cases : list ((layout * list gen_call) * list obs1)) : list N :=
  report (list_eqb obs1_eqb) model_obs guards cases.
