(* Correspondence-check combinators.  A shard file written by the harness defines a list of
   cases (input, implementation's observation) and evaluates [report] with vm_compute; the
   result is one number per case:
     bit 0          : model output differs from the implementation's observation
     bits 1..       : guard conjunct k (1-based) of the _partial theorem is FALSE on this input
   Only numbers are printed, so the harness parses the output with a regex and nothing else. *)
From PG Require Import Lib.Strs.

Fixpoint bits_of (l : list bool) (w : N) : N :=
  match l with
  | [] => 0
  | b :: r => (if b then w else 0) + bits_of r (2 * w)
  end.

(* [guards x] lists the guard conjuncts (true = holds); code sets bit k when conjunct k fails *)
Definition code {A B} (eqb : B -> B -> bool) (model : A -> B) (guards : A -> list bool)
    (c : A * B) : N :=
  (if eqb (model (fst c)) (snd c) then 0 else 1)
  + bits_of (map negb (guards (fst c))) 2.

Definition report {A B} (eqb : B -> B -> bool) (model : A -> B) (guards : A -> list bool)
    (cases : list (A * B)) : list N :=
  map (code eqb model guards) cases.
