From PG Require Import Lib.Strs Corr.Driver Model.Dispatch.

(* what the driver sees for one call: a value came back | an exception (names of type(e).__mro__ up to and
   including "Exception", e.status_code, `e.response is <the response object>`) | the package cannot be imported *)
Inductive obs := ORet | OExc (mro : list str) (st : N) (same : bool) | OImport.

Definition obs_eqb (a b : obs) : bool :=
  match a, b with
  | ORet, ORet => true
  | OImport, OImport => true
  | OExc m1 s1 r1, OExc m2 s2 r2 => list_eqb str_eqb m1 m2 && (s1 =? s2) && Bool.eqb r1 r2
  | _, _ => false
  end.

Definition to_obs (o : outcome) : obs :=
  match o with
  | Returned => ORet
  | Raised c st r => OExc (mro c) st r
  | ImportFails => OImport
  | Crashed => OExc [[84;121;112;101;69;114;114;111;114]; [69;120;99;101;112;116;105;111;110]] 0 false   (* TypeError, Exception *)
  end.

(* input: transport kind, all operations of the package, index of the called one, status answered *)
Definition input := (kind * spec * list str * nat * N)%type.   (* + model class names imported by the endpoints module *)
Definition the_op (s : spec) (i : nat) : op := nth i s [].

Definition model_obs (x : input) : obs :=
  let '(k, s, ms, i, st) := x in to_obs (call_ns k s ms ms (the_op s i) st).   (* the harness's specs have one module: all = ms *)
(* no guard conjunct is left: F06a-e are fixed *)
Definition guards (x : input) : list bool := [].
Definition run (cases : list (input * obs)) : list N := report obs_eqb model_obs guards cases.

(* function-level relation: the three real _get_primary_response copies, as index of the chosen response *)
Fixpoint index_of (r : resp) (o : op) (i : nat) : option nat :=
  match o with [] => None | x :: rest => if resp_eqb x r then Some i else index_of r rest (S i) end.
Definition idx (o : op) (p : option resp) : option nat :=
  match p with Some r => index_of r o 0 | None => None end.
Definition onat_eqb := opt_eqb Nat.eqb.
(* observation: (strategy copy, resolver copy, endpoint_utils copy) *)
Definition primary_eqb (a b : option nat * option nat * option nat) : bool :=
  let '(a1, a2, a3) := a in let '(b1, b2, b3) := b in onat_eqb a1 b1 && onat_eqb a2 b2 && onat_eqb a3 b3.
Definition model_primary (o : op) := (idx o (primary_rs o), idx o (primary_rs o), idx o (primary_eu o)).
Definition run_primary (cases : list (op * (option nat * option nat * option nat))) : list N :=
  report primary_eqb model_primary (fun _ => []) cases.
