(* C08 correspondence: the Coq [trace] of the call trees rebuilt from the implementation's event trace must
   reproduce every tracker snapshot the wrapped unified_enter_schema / unified_exit_schema recorded. *)
From PG Require Import Lib.Strs Corr.Driver Model.Cycle.

Definition nlen {A} (l : list A) : N := N.of_nat (length l).

(* A snapshot is compared through its small fields plus an order-sensitive checksum of the complete stack,
   state dictionary (insertion order) and parsed_schemas key list (Adler/Fletcher style without modulus:
   a := a + x + 1; b := b + a over all code points, with separators; only additions, because N.modulo under
   vm_compute costs ~60us and a 150-schema chain has ~10^6 code points to digest).  The harness computes the
   same pair from the implementation's snapshot.  Shipping the full lists made shard files of several MB. *)
Definition hstep (h : N * N) (x : N) : N * N := let a := fst h + x + 1 in (a, snd h + a).
Definition hstr (h : N * N) (s : str) : N * N := hstep (fold_left hstep s h) 1114112.
Definition hsnap (c : ctx) : N * N :=
  let h1 := fold_left hstr (stack c) (7, 0) in
  let h2 := fold_left (fun h kv => hstep (hstr h (fst kv)) (sstate_code (snd kv))) (states c) (hstep h1 1114113) in
  fold_left hstr (parsed c) (hstep h2 1114113).

Definition enc (e : event) : list N :=
  let '(k, a, c) := e in
  [k; a; depth c; g_nest c; nlen (cycles c); nlen (concat (cycles c)); (if flag c then 1 else 0); nlen (exceeded c);
   nlen (stack c); nlen (states c); nlen (parsed c); fst (hsnap c); snd (hsnap c)].

(* input: configured depth limit, top-level items in execution order, truncated? *)
Record input := { i_md : N; i_tops : list top; i_trunc : bool; i_alt : list (str * str) }.

(* sanitize_class_name on the declared names of this case, as a finite table computed by the harness *)
Definition alt_of (i : input) (n : str) : str := match alookup n (i_alt i) with Some a => a | None => n end.

Definition obs := (bool * list (list N))%type.

Definition model_obs (i : input) : obs :=
  (i_trunc i, map enc (trace (i_md i) (i_tops i))).

Definition nl_eqb := list_eqb (list_eqb N.eqb).
(* truncated (the interpreter stack was exhausted): the model must reproduce the recorded prefix *)
Definition obs_eqb (m o : obs) : bool :=
  if fst m then nl_eqb (firstn (length (snd o)) (snd m)) (snd o) else nl_eqb (snd m) (snd o).

(* guard conjuncts: 1 = F08a (true nesting within the limit), 2 = F08b (no fall-through),
   3 = no empty schema name reaches the tracker (F08d, fixed in the loader: must always hold now),
   4 = tracker state is only dropped for the schema that is re-parsed next (must always hold),
   5 = the parser body honours the registration contract of C08_all_present (F08e when false) *)
Definition guards (i : input) : list bool :=
  [guard_F08a (i_md i) (i_tops i); guard_F08b (i_md i) (i_tops i); forallb (fun x => names_truthy (top_call x)) (i_tops i);
   forallb fresh_ok (i_tops i);
   contract (alt_of i) (init (i_md i)) (i_tops i) && forallb (fun x => no_unreg (top_call x)) (i_tops i)].

Definition run (cases : list (input * obs)) : list N := report obs_eqb model_obs guards cases.

(* debugging aid: the model's own snapshots *)
Definition show (i : input) : list (list N) := snd (model_obs i).

(* ---- second relation: the nesting of _parse_schema frames predicted by the fuel-based parser model
   (Model/CycleParser.v over w02's Model/Parser.v) = the maximum nesting observed on the real parser, on the
   enumerated reference graphs.  Code 0 = equal. ---- *)
From PG Require Model.CycleParser.
Definition run_nest (cases : list (nat * N * N * nat)) : list N :=
  map (fun c => match c with (k, m, md, seen) =>
         if Nat.eqb (PG.Model.CycleParser.needed md (PG.Model.CycleParser.gspec k m)) seen then 0 else 1 end) cases.
