(* Correspondence drivers for C20.  The harness writes the Unicode tables of the shard (produced by
   Python's own str methods / re for exactly the non-ASCII code points that occur) and the cases. *)
From PG Require Import Lib.Strs Corr.Driver Gen.Tables Gen.T_C20 Model.Names Model.Dedup.

Record tables := {
  t_word : list N; t_lower : list (N * str); t_upper : list (N * str); t_title : list (N * str);
  t_digit : list N; t_ign : list N; t_cased : list N }.

Fixpoint memN (c : N) (l : list N) : bool :=
  match l with [] => false | x :: r => (c =? x) || memN c r end.
Fixpoint lookN (c : N) (l : list (N * str)) : str :=
  match l with [] => [c] | (x, v) :: r => if c =? x then v else lookN c r end.

Section WithTables.
  Variable T : tables.
  Definition o_word c := memN c (t_word T).
  Definition o_lower c := lookN c (t_lower T).
  Definition o_upper c := lookN c (t_upper T).
  Definition o_title c := lookN c (t_title T).
  Definition o_digit c := memN c (t_digit T).
  Definition o_ign c := memN c (t_ign T).
  Definition o_cased c := memN c (t_cased T).

  Definition m_module := module_name o_word o_lower o_digit o_ign o_cased.
  Definition m_tag_class := tag_class_name o_word o_lower o_title o_ign o_cased.
  Definition m_tag_attr := tag_attr_name o_word o_lower o_ign o_cased.
  Definition m_tag_key := normalize_tag_key o_word o_lower o_ign o_cased.
  Definition m_enum_str := enum_member_str o_upper.
  Definition m_enum_int := enum_member_int o_upper.

  Definition b2s (b : bool) : str := if b then [49] else [48].

  (* one sanitiser call: ((function id, input), (neg, fallback)) -> Some output | None (raised) *)
  Definition call (x : (N * str) * (bool * N)) : option str :=
    let '((f, s), (neg, fb)) := x in
    match f with
    | 0 => Some (class_name s)
    | 1 => Some (m_module s)
    | 2 => Some (method_name s)
    | 3 => Some (m_tag_class s)
    | 4 => Some (m_tag_attr s)
    | 5 => Some (m_tag_key s)
    | 6 => Some (b2s (is_valid_python_identifier s))
    | 7 => m_enum_str s
    | 8 => m_enum_int s neg fb
    | 9 => Some (to_module_name_ascii s)
    | _ => None
    end.

  (* guard conjuncts (bit k of the code):
     1 F20d  tag names: digit-leading names (no digit prefix; pinned by the test-suite)
     2 F20h  non-ASCII word characters are kept: tag names; module names of strings without ASCII letter/digit *)
  Definition call_guards (x : (N * str) * (bool * N)) : list bool :=
    let '((f, s), _) := x in
    [ negb ((f =? 3) || (f =? 4)) || first_alnum_not_digit s;
      if f =? 1 then has_alnum s || no_foreign_word o_word s
      else negb ((f =? 3) || (f =? 4)) || no_foreign_word o_word s ].

  Definition run_calls (cases : list (((N * str) * (bool * N)) * option str)) : list N :=
    report (opt_eqb str_eqb) call call_guards cases.

  (* ---- de-duplication loops ---- *)
  Definition pairs_eqb := list_eqb (pair_eqb str_eqb str_eqb).

  Definition run_fields (cases : list (list (str * bool) * list (str * str))) : list N :=
    report pairs_eqb dedup_fields (fun _ => []) cases.

  (* models: output re-ordered to the input order *)
  Fixpoint find_idx (i : nat) (l : list (nat * (str * str))) : str * str :=
    match l with
    | [] => ([], [])
    | (j, v) :: r => if Nat.eqb i j then v else find_idx i r
    end.
  Definition models_obs (names : list str) : list (str * str) :=
    let out := dedup_models names in
    map (fun i => find_idx i out) (seq 0 (length names)).
  Definition run_models (cases : list (list str * list (str * str))) : list N :=
    report pairs_eqb models_obs
           (fun _ => []) cases.

  Definition run_enum (cases : list (list str * option (list str))) : list N :=
    report (opt_eqb (list_eqb str_eqb)) (dedup_enum m_enum_str) (fun _ => []) cases.

  (* operation ids: the ids after one pass and after two passes (emit runs twice under --force) *)
  Definition ops_obs (ids : list str) : list str * list str :=
    (dedup_ops ids, dedup_ops (dedup_ops ids)).
  Definition run_ops (cases : list (list str * (list str * list str))) : list N :=
    report (pair_eqb (list_eqb str_eqb) (list_eqb str_eqb)) ops_obs
           (fun _ => []) cases.

  (* undeclared path variables are appended in template order (F09a fixed: no longer a set) *)
  Definition params_obs (x : (list str * option str) * list str) : list str :=
    params (fst (fst x)) (snd (fst x)) (snd x).
  Definition run_params (cases : list (((list str * option str) * list str) * list str)) : list N :=
    report (list_eqb str_eqb) params_obs
           (fun x => [guard_F04c (fst (fst x)); guard_F04d (fst (fst x)) (snd (fst x))]) cases.
  (* loader: registered keys with the position of the raw schema whose content each holds; None = RuntimeError *)
  Definition key_eqb (a b : str * nat) : bool := str_eqb (fst a) (fst b) && Nat.eqb (snd a) (snd b).
  Definition run_schemas (cases : list (list str * option (list (str * nat)))) : list N :=
    report (opt_eqb (list_eqb key_eqb)) build_keys (fun raw => [guard_F20k raw; guard_F20m raw]) cases.
  (* end to end: compared as lists sorted by module stem (stems are pairwise distinct) *)
  Definition pm_leb (a b : (str * str) * nat) : bool := str_leb (fst (fst a)) (fst (fst b)).
  Definition pm_eqb (a b : (str * str) * nat) : bool :=
    str_eqb (fst (fst a)) (fst (fst b)) && str_eqb (snd (fst a)) (snd (fst b)) && Nat.eqb (snd a) (snd b).
  Definition pipeline_obs (raw : list str) : option (list ((str * str) * nat)) :=
    match pipeline_models raw with Some l => Some (isort pm_leb l) | None => None end.
  Definition run_pipeline (cases : list (list str * option (list ((str * str) * nat)))) : list N :=
    report (opt_eqb (list_eqb pm_eqb)) pipeline_obs
           (fun raw => [guard_F20k raw; guard_F20m raw]) cases.
  (* clean_auto_generated_operation_id: ((operationId, HTTP method), path) -> id, and the method name derived from it *)
  Definition m_clean := clean_op_id o_lower o_ign o_cased.
  Definition clean_obs (x : (str * str) * str) : str * str :=
    let id := m_clean (fst (fst x)) (snd (fst x)) (snd x) in (id, method_name id).
  Definition run_clean (cases : list (((str * str) * str) * (str * str))) : list N :=
    report (pair_eqb str_eqb str_eqb) clean_obs (fun _ => []) cases.
  (* end to end, operations of one client class: _deduplicate_operation_ids_globally is GLOBAL (all operations,
     regardless of tag); emit() then groups the operations by normalize_tag_key(tag or "default").  Observation:
     the method-name lists of the generated client classes, as a sorted list of lists. *)
  Definition s_default : str := [100;101;102;97;117;108;116].
  Fixpoint lstr_leb (a b : list str) : bool :=
    match a, b with
    | [], _ => true
    | _ :: _, [] => false
    | x :: a', y :: b' => if str_eqb x y then lstr_leb a' b' else str_leb x y
    end.
  Fixpoint nodup_keys (seen : list str) (l : list str) : list str :=
    match l with
    | [] => []
    | k :: r => if mem_str k seen then nodup_keys seen r else k :: nodup_keys (k :: seen) r
    end.
  Definition tagops_obs (x : list (str * option str)) : list (list str) :=
    let names := map method_name (dedup_ops (map fst x)) in
    let keys := map (fun p => m_tag_key (match snd p with Some t => t | None => s_default end)) x in
    let kn := combine keys names in
    isort lstr_leb
      (map (fun k => map snd (filter (fun p => str_eqb (fst p) k) kn)) (nodup_keys [] keys)).
  Definition run_tagops (cases : list (list (str * option str) * list (list str))) : list N :=
    report (list_eqb (list_eqb str_eqb)) tagops_obs (fun _ => []) cases.
End WithTables.
